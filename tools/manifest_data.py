NOTES = (
    "Technique family: deterministic simulation with fault injection. One CLI (./check) drives per-property engines "
    "under sim/: every choice of a run comes from a recorded decision tape derived from VERIF_SEED; violations are "
    "minimised and written to replays/. known_findings.json lists recorded genuine defects and fix: commits."
)
DS = "deterministic simulation with fault injection: "
CHECKS = [
    {
        "property_id": "C01",
        "text": "seeded search over object trees x conformant spellings x read-buffer schedules (placed boundaries) x absolute offsets, compared with an independent value model on two read paths",
        "note": "sampling, not proof; SimWriter and value model are harness code independent of pdfminer; constructs listed in DESIGN appendix B",
        "technique": DS + "seeded chunk-schedule search (read-boundary placement) against a reference value model",
    },
    {
        "property_id": "C02",
        "text": "seeded revision histories (define/override sets) written in table/stream/hybrid forms with object streams, reader restarted after every revision, read order/caching/eviction/chunk schedule drawn from the tape, compared with a map model; damage mode injects startxref/xref-table faults",
        "note": "sampling; writer independent of pdfminer; freed ids not generated",
        "technique": DS + "store-versus-map history simulation with restart after each revision, cache-eviction buggify and xref damage injection",
    },
    {
        "property_id": "C03",
        "text": "seeded payloads x filter chains x predictor geometries encoded by independent encoders; stream delimitation exercised under placed read boundaries, indirect Length/Filter/DecodeParms (nested getobj on the shared parser) and cache eviction",
        "note": "sampling; own encoders (LZW, RunLength, ASCII85, ASCIIHex, PNG/TIFF predictors) are the trusted base together with zlib",
        "technique": DS + "seeded chunk-schedule and read-order search around stream delimitation; decode compared with the encoder's input",
    },
    {
        "property_id": "C04",
        "text": "seeded page trees with inherited attributes; Kids cycle/repeat faults under a step-clock budget; lazily stepped page iterators; selection by page_numbers/maxpages against a reference DFS",
        "note": "sampling; termination judged by a deterministic step budget, not wall clock",
        "technique": DS + "structural fault injection into /Kids under a simulated step clock, reference DFS model",
    },
    {
        "property_id": "C05",
        "text": "seeded operator programs executed by the real interpreter, split into Contents arrays at tape-chosen cuts under chunk schedules, with operand faults, compared glyph by glyph with an exact-rational reference of ISO 32000-1 9.3-9.4; one CID metric table (/W, /W2) in two spellings compared between two runs",
        "note": "sampling; dyadic operands so that float arithmetic is exact; forms self-contained",
        "technique": DS + "program/split/chunk-schedule search with operand fault injection against an exact rational text-state machine",
    },
    {
        "property_id": "C10",
        "text": "documents encrypted by an independent implementation of the standard security handler, read in tape-chosen order with repeats, caching on/off/evicting, chunk schedules, user/owner/wrong passwords, compared with the plaintext model",
        "note": "sampling; own RC4/MD5/SHA/AES glue on hashlib/cryptography is the trusted base",
        "technique": DS + "encrypted-store read-order/cache-eviction simulation against a plaintext model",
    },
    {
        "property_id": "C11",
        "text": "generated documents converted to text and XML into simulated sinks (text, binary x codec, duck-typed) and compared with the LTPage tree from extract_pages on the same bytes",
        "note": "sampling; XML read back with expat",
        "technique": DS + "sink-seam simulation (sink kinds, codecs) with tree-versus-output comparison",
    },
    {
        "property_id": "C12",
        "text": "pools of colliding documents extracted under seeded histories: interleaved lazily-stepped page iterators, repeats, abandoned iterators, gc, cache flags, cache eviction, address assignment and hash seed; every observation compared with a reference computed in a pristine forked process",
        "note": "sampling at public-API step granularity (the only pre-emption points a single-threaded library has)",
        "technique": DS + "seeded scheduler interleaving extraction tasks over shared process state, address/hash-seed seams, pristine-fork reference",
    },
    {
        "property_id": "C13",
        "category": "fault_enumeration",
        "text": "every single structural fault (site x kind), every truncation point and payload corruption on a fixed family of feature-covering seed documents, run through three extraction entry points under a step clock and memory cap; outcome must be return or PSException within a step budget proportional to input size",
        "note": "thorough enumerates the finite fault set completely; quick runs every structural/payload/container/trailer fault and samples the truncation points by VERIF_SEED; single faults only",
        "technique": DS + "enumerated single-fault injection into seed documents under a simulated step clock",
    },
    {
        "property_id": "C14",
        "text": "all byte strings up to a length bound over a lexical-class alphabet plus seeded longer strings, each tokenised under every constant buffer size 1..k and the default, under a step clock and a CPU-time watchdog, also with one tokenizer object used again after seek(); totality, progress, position and sequence equality checked",
        "note": "exhaustive only up to the stated length over the class alphabet; otherwise sampling",
        "technique": DS + "chunk-schedule (read-buffer size) sweep under a simulated step clock, cross-schedule equality oracle",
    },
    {
        "property_id": "C15",
        "text": "documents with hostile names processed in a scratch file-system state (bait files at every traversal target, pre-existing output names) under an audit-hook monitor; every open/create must stay inside the allowed directories and nothing pre-existing may change",
        "note": "sampling; audit events open/os.*; stat calls are not opens",
        "technique": DS + "simulated file-system state with bait files and audit-event monitoring",
    },
    {
        "property_id": "C16",
        "text": "seeded path/paint/colour/q-Q programs split across Contents streams under chunk schedules, compared shape by shape with a reference graphics-state machine over exact rationals",
        "note": "sampling; dyadic operands; readings of open points in DESIGN appendix B",
        "technique": DS + "operation-history simulation of the graphics state machine against a reference model, with content splitting and chunk schedules",
    },
    {
        "property_id": "C18",
        "text": "image XObjects and inline images with arbitrary data; the inline-data scanner under placed read boundaries; export into simulated output-directory states with pre-existing names; files read back by an independent BMP reader",
        "note": "sampling; Pillow-dependent export branches are outside the workload",
        "technique": DS + "chunk-schedule search on the inline-image scanner and FS-state simulation for export naming",
    },
    {
        "property_id": "C20",
        "text": "seeded operation histories (add/extend/remove/find/iterate/len/contains) on utils.Plane checked after every step against a list model, with queries abandoned half-read and two queries read alternately under a tape-chosen schedule; affine laws over exact rationals on the same runs",
        "note": "sampling; the affine laws are pure and not what the simulation decides",
        "technique": DS + "seeded operation histories against a sequential reference model (store versus list)",
    },
]
NOT_APPLICABLE = [
    {"property_id": "C06", "reason": "pure table lookup on an in-memory font dictionary: no schedule, fault, clock or history enters the statement (font cache and shared encoding tables are exercised under C12)"},
    {"property_id": "C07", "reason": "CMap segmentation and CID/Unicode/width lookup are pure functions of the font dictionary and byte string (CMap cache sharing under C12, resource paths under C15)"},
    {"property_id": "C08", "reason": "pure function of a glyph multiset and LAParams; its only nondeterministic input (address tie-breaks) is owned by the simulator under C12"},
    {"property_id": "C09", "reason": "threshold placement and scale metamorphism are input generation only; nothing for a scheduler or fault injector to decide"},
    {"property_id": "C17", "reason": "pure functions of in-memory trees (number/name tree descent, formatting, text decoding); no seam the simulator owns enters the statement"},
    {"property_id": "C19", "reason": "pure bit-stream decoder handed the whole byte string at once; no schedule, fault or history in the statement"},
]
