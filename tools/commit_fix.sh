#!/bin/sh
# usage: commit_fix.sh <message-file>   -- commits /repo working tree as a fix only if the pinned suite is green
cd /repo || exit 1
out=$(/venv/bin/python -m pytest -q -p no:cacheprovider -n 8 2>&1 | tail -1)
echo "$out"
case "$out" in
  "216 passed"*) git commit -qaF "$1" && git log --oneline | head -1 ;;
  *) echo "SUITE NOT GREEN - not committed"; exit 1 ;;
esac
