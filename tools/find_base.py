import os, subprocess, json
repo='/repo'
commits=subprocess.run(['git','-C',repo,'rev-list','HEAD','-n','140'],capture_output=True,text=True).stdout.split()
wt='/tmp/basefind'
subprocess.run(['git','-C',repo,'worktree','add','--detach',wt,'HEAD','-q'])
D='/verif/seeded'
names=sorted(n for n in os.listdir(D) if os.path.isfile(os.path.join(D,n,'patch.diff')))
pending=set(names); res={}
for c in commits:
    if not pending: break
    subprocess.run(['git','-C',wt,'checkout','-q',c])
    for n in sorted(pending):
        r=subprocess.run(['git','-C',wt,'apply','--check',os.path.join(D,n,'patch.diff')],capture_output=True)
        if r.returncode==0:
            res[n]=c[:7]; pending.discard(n)
subprocess.run(['git','-C',repo,'worktree','remove','--force',wt]); subprocess.run(['git','-C',repo,'worktree','prune'])
head=commits[0][:7]
print("HEAD",head,"not at HEAD:",{n:c for n,c in res.items() if c!=head},"none:",sorted(pending))
for n,c in res.items():
    p=os.path.join(D,n,'meta.json'); m=json.load(open(p)); m['applies_to_repo_commit']=c; json.dump(m,open(p,'w'),indent=1)
