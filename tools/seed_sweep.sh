#!/bin/sh
# usage: tools/seed_sweep.sh <tier> <seed>...   -- runs every check under each seed, prints one line per run
tier=$1; shift
for seed in "$@"; do
  for id in C01 C02 C03 C04 C05 C10 C11 C12 C13 C14 C15 C16 C18 C20; do
    out=$(VERIF_SEED=$seed VERIF_SKIP_DET=1 ./check $id --tier $tier 2>&1)
    rc=$?
    echo "seed=$seed $id rc=$rc $(echo "$out" | grep -E "^$id (quick|thorough):" | cut -c1-160)"
    if [ $rc -ne 0 ]; then echo "$out" | grep -E "VIOLATION|HARNESS|^  C" | cut -c1-400; fi
  done
done
