#!/venv/bin/python
"""Regenerate the table of seeded/README.md from the meta.json files; the hand-written section on strengthened checks is kept."""
import json
import os

HERE = os.path.dirname(os.path.dirname(os.path.abspath(__file__)))
D = os.path.join(HERE, "seeded")
MARK = "## Checks strengthened because of a seeded change"


def cell(s, n):
    return " ".join(str(s).split()).replace("|", "/")[:n]


def main():
    old = open(os.path.join(D, "README.md")).read()
    tail = old[old.index(MARK):]
    names = sorted(n for n in os.listdir(D) if os.path.isfile(os.path.join(D, n, "meta.json")))
    # (a bullet may name several changes: "* **C10-u**, **C10-v** - ...")
    import re

    strengthened = len({n for l in tail.splitlines() if l.startswith("* **") and "not caught" not in l.split(":")[0] for n in re.findall(r"\*\*(C\d\d-[a-z]+)\*\*", l.split(" - ")[0])})
    rows = []
    for n in names:
        m = json.load(open(os.path.join(D, n, "meta.json")))
        ch = m.get("checks", {})
        tier = next((t for t in ("quick", "thorough") if ch.get(t, {}).get("detected")), "MISSED")
        sig = next((ch[t]["first_signature"] for t in ("quick", "thorough") if ch.get(t, {}).get("detected")), "")
        rows.append("| %s | %s | %s | %s | `%s` |" % (n, cell(m.get("summary", ""), 150), cell(m.get("needs", ""), 160), tier, cell(sig, 60)))
    caught_quick = sum(1 for r in rows if "| quick |" in r)
    import collections

    commits = {n: json.load(open(os.path.join(D, n, "meta.json"))).get("applies_to_repo_commit") for n in names}
    newest = collections.Counter(c for c in commits.values() if c).most_common(1)[0][0]
    old_list = ", ".join(n for n in names if commits[n] and commits[n] != newest) or "none"
    head = """# Seeded changes

Changes to pdfminer.six written by independent sub-agents that were given only the text of a property and a scratch worktree
(three rounds; the later ones asked for subtler defects and for mechanisms not used before). Each directory holds the agent's
`patch.diff`, its demonstration `demo.py` (fails with the change, passes without) and `meta.json` (what it breaks, what it needs to
manifest, how it was confirmed, and what the checks said). Every change was confirmed by `tools/eval_seeded.py`: patch applied to a
scratch copy of /repo/pdfminer, the pinned suite still passes there (216 passed), the demonstration fails there and passes on /repo,
then the property's check runs with VERIF_REPO=<copy>. None of them is ever applied to /repo.

Each meta.json names a /repo commit the patch applies to with `git apply` (`applies_to_repo_commit`). Later repairs in
/repo rewrote some of the patched code (read_xref_from and the page-tree walk became loops, the image export gained
checks), so these patches apply to their own commit but no longer to the newest one scanned: %s.
C15-d is no longer a defect at the head: the repair cdc58ca (image size and depth are checked before export) closes the
path it used. Recorded verdicts are from the commit a change was written for.

%d changes; %d are caught by the quick tier of their property's check (%d of them only after the check was strengthened, see below).

| change | what it does | needs | caught by | first signature |
|---|---|---|---|---|
""" % (old_list, len(rows), caught_quick, strengthened)
    open(os.path.join(D, "README.md"), "w").write(head + "\n".join(rows) + "\n\n" + tail)
    print(len(rows), "rows;", caught_quick, "quick;", strengthened, "strengthened")


if __name__ == "__main__":
    main()
