#!/venv/bin/python
"""Enumerate the whole C13 fault space once and print signature counts (used to build/refresh the known list)."""
import collections, json, os, sys, multiprocessing
sys.path.insert(0, os.path.dirname(os.path.dirname(os.path.abspath(__file__))))
from sim import core
from sim.tape import Tape
core.import_sut()
import checks.c13 as e
e.setup()

def work(job):
    ctx = core.Ctx("thorough")
    c = collections.Counter(); ex = {}
    n = 0
    for it in e.items(job):
        out = e.run(Tape(0), ctx, it)
        n += 1
        for d in out.devs:
            c[d.sig] += 1; ex.setdefault(d.sig, d.msg)
    return c, ex, n, dict(ctx.probes)

if __name__ == "__main__":
    jobs = e.jobs("thorough", 0)
    if len(sys.argv) > 1 and sys.argv[1] == "notrunc":
        jobs = [j for j in jobs if j["what"] != "truncate"]
    only = os.environ.get("SURVEY_SEEDS")
    if only:
        jobs = [j for j in jobs if j.get("seed") in only.split(",")]
    with multiprocessing.get_context("fork").Pool(16) as pool:
        res = pool.map(work, jobs)
    tot = collections.Counter(); ex = {}; n = 0; mx = 0
    for c, x, k, pr in res:
        tot.update(c); n += k
        for s, m in x.items(): ex.setdefault(s, m)
        mx = max(mx, max([v for kk, v in pr.items() if kk.startswith("max ")] or [0]))
    print("items", n, "distinct sigs", len(tot), "max step ratio", mx)
    json.dump({"counts": tot, "examples": ex}, open("/tmp/c13_survey.json", "w"), indent=1)
    byexc = collections.Counter()
    for s, k in tot.items():
        byexc[s.split("|")[0]] += k
    for s, k in byexc.most_common():
        print("%6d  %s" % (k, s))
