#!/venv/bin/python
"""Confirm seeded changes written by sub-agents and run the checks against them.

usage: tools/eval_seeded.py <dir-with-candidates> [--keep] [names...]

For every candidate directory (patch.diff, demo.py, meta.json):
  1. the patch is applied to a scratch copy of /repo/pdfminer (never to /repo itself);
  2. the pinned suite must still pass on the copy, the demonstration must fail on the copy and pass on /repo;
  3. the property's quick check (and, with --thorough, the thorough one) runs with VERIF_REPO=<copy>;
  4. confirmed candidates are stored under /verif/seeded/<name>/ with the verdict in meta.json.
"""
import json
import os
import shutil
import subprocess
import sys
import time

HERE = os.path.dirname(os.path.dirname(os.path.abspath(__file__)))
sys.path.insert(0, HERE)
from sim import selftest  # noqa: E402


def run(cmd, **kw):
    return subprocess.run(cmd, capture_output=True, text=True, **kw)


def main():
    src = os.path.abspath(sys.argv[1])
    only = [a for a in sys.argv[2:] if not a.startswith("--")]
    thorough = "--thorough" in sys.argv
    rows = []
    for name in sorted(os.listdir(src)):
        d = os.path.join(src, name)
        if not os.path.isfile(os.path.join(d, "patch.diff")) or (only and name not in only):
            continue
        meta = json.load(open(os.path.join(d, "meta.json")))
        pid = name.split("-")[0]
        scratch = selftest.make_scratch()
        try:
            p = run(["patch", "-p1", "-d", scratch, "-i", os.path.join(d, "patch.diff")])
            if p.returncode:
                rows.append((name, "PATCH-FAILED", p.stdout[-200:] + p.stderr[-200:]))
                continue
            suite = selftest.run_suite(scratch)
            env = dict(os.environ, PYTHONPATH=scratch, PYTHONDONTWRITEBYTECODE="1")
            bad = run(["/venv/bin/python", os.path.join(d, "demo.py")], env=env, cwd=scratch, timeout=600)
            env2 = dict(os.environ, PYTHONPATH="/repo", PYTHONDONTWRITEBYTECODE="1")
            good = run(["/venv/bin/python", os.path.join(d, "demo.py")], env=env2, cwd="/repo", timeout=600)
            confirmed = suite.startswith("216 passed") and bad.returncode != 0 and good.returncode == 0
            env3 = dict(os.environ, VERIF_REPO=scratch, VERIF_SKIP_DET="1", PYTHONHASHSEED="0")
            verdicts = {}
            for tier in ["quick"] + (["thorough"] if thorough else []):
                t0 = time.time()
                c = run([os.path.join(HERE, "check"), pid, "--tier", tier], env=env3, timeout=7200)
                sigs = [l.strip() for l in c.stdout.splitlines() if l.startswith("  C") and ":" in l]
                verdicts[tier] = {"detected": c.returncode == 1, "rc": c.returncode, "first_signature": (sigs[0][:300] if sigs else ""), "seconds": round(time.time() - t0)}
                if c.returncode == 1:
                    break
            print("%-10s %s %s" % (name, "confirmed" if confirmed else "NOT-CONFIRMED", json.dumps(verdicts)[:400]), flush=True)
            rows.append((name, "confirmed" if confirmed else "NOT-CONFIRMED suite=%s demo_with=%d demo_without=%d" % (suite, bad.returncode, good.returncode), json.dumps(verdicts)[:400]))
            if confirmed:
                out = os.path.join(HERE, "seeded", name)
                os.makedirs(out, exist_ok=True)
                for f in ("patch.diff", "demo.py"):
                    if os.path.abspath(d) != os.path.abspath(out):
                        shutil.copy(os.path.join(d, f), os.path.join(out, f))
                meta.update({"breaks_property": pid, "confirmed_by_me": {"suite_with_change": suite, "demo_exit_with_change": bad.returncode, "demo_exit_without_change": good.returncode, "how": "patch applied to a scratch copy of /repo/pdfminer (VERIF_REPO); suite and demo run with PYTHONPATH=<copy>"}, "checks": verdicts})
                json.dump(meta, open(os.path.join(out, "meta.json"), "w"), indent=1)
        finally:
            shutil.rmtree(scratch, ignore_errors=True)
    for r in rows:
        print("%-10s %-14s %s" % r)


if __name__ == "__main__":
    main()
