#!/usr/bin/env python3
"""Regenerate /verif/MANIFEST.json from the engines that exist (run from /verif)."""
import json
import os
import sys

HERE = os.path.dirname(os.path.dirname(os.path.abspath(__file__)))
sys.path.insert(0, HERE)
from tools.manifest_data import CHECKS, NOT_APPLICABLE, NOTES  # noqa: E402

built = [c for c in CHECKS if os.path.exists(os.path.join(HERE, "checks", c["property_id"].lower() + ".py"))]
pending = [c for c in CHECKS if c not in built]
m = {
    "version": 1,
    "setup_cmd": "/venv/bin/python -m pip install -q --no-index --find-links /opt/veriftools/wheels jsonschema >/dev/null 2>&1 || true",
    "hooks": {
        "guard": "PDFMINER_SIX_VERIF",
        "enable": "no source hook exists: every seam is installed from outside (PSBaseParser.BUFSIZ descriptor, module-level id, sys.monitoring, sys.addaudithook); checks import pdfminer from /repo's working tree (VERIF_REPO)",
        "baseline_off_cmd": "cd /repo && /venv/bin/python -m pytest -ra -q -p no:cacheprovider --timeout=900 --continue-on-collection-errors",
        "source_commits": [],
        "add_only": True,
    },
    "engines": [
        {
            "name": "sim",
            "path": "sim/",
            "serves_properties": [c["property_id"] for c in built],
            "kind_free_text": "deterministic simulation: decision tape (seed -> recorded draws -> replay/minimise), chunk-schedule / address / step-clock / FS-audit seams, fork-pool runner",
        }
    ],
    "checks": [],
    "notes": NOTES,
    "not_applicable": list(NOT_APPLICABLE)
    + [
        {"property_id": c["property_id"], "reason": "claimed in DESIGN.md but its engine is not built yet; not claimed until it is"}
        for c in pending
    ],
}
for c in built:
    pid = c["property_id"]
    m["checks"].append(
        {
            "property_id": pid,
            "quick_cmd": "./check %s --tier quick" % pid,
            "thorough_cmd": "./check %s --tier thorough" % pid,
            "evidence_file": "/verif/evidence/%s.json" % pid,
            "replay_cmd_template": "./check %s --replay {path}" % pid,
            "engine": "sim",
            "level_claimed": {"category": c.get("category", "exploration"), "text": c["text"], "design_ref": "DESIGN.md section 5, %s" % pid},
            "level_note": c["note"],
            "technique": c["technique"],
        }
    )
m["not_applicable"].sort(key=lambda e: e["property_id"])
with open(os.path.join(HERE, "MANIFEST.json"), "w") as f:
    json.dump(m, f, indent=1)
print("MANIFEST.json: %d checks, %d not applicable" % (len(m["checks"]), len(m["not_applicable"])))
