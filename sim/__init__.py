"""Deterministic-simulation framework for pdfminer.six (see /verif/DESIGN.md section 3)."""
