"""Independent implementation of the *encrypting* side of the PDF standard security handler
(ISO 32000-1 7.6, Adobe extension level 3 for R5, ISO 32000-2 7.6.4 for R6).  Harness code: never imports pdfminer.
Trusted base: hashlib (MD5, SHA-2) and cryptography (AES)."""
import hashlib
import struct
import unicodedata

from cryptography.hazmat.primitives.ciphers import Cipher, algorithms, modes

from .pdfwriter import Name, Str, Stream

PAD = bytes.fromhex("28BF4E5E4E758A4164004E56FFFA01082E2E00B6D0683E802F0CA9FE6453697A")


def rc4(key, data):
    s = list(range(256))
    j = 0
    for i in range(256):
        j = (j + s[i] + key[i % len(key)]) & 255
        s[i], s[j] = s[j], s[i]
    i = j = 0
    out = bytearray()
    for c in data:
        i = (i + 1) & 255
        j = (j + s[i]) & 255
        s[i], s[j] = s[j], s[i]
        out.append(c ^ s[(s[i] + s[j]) & 255])
    return bytes(out)


def aes_cbc_encrypt(key, iv, data, pad=True):
    if pad:
        n = 16 - len(data) % 16
        data = data + bytes((n,)) * n
    enc = Cipher(algorithms.AES(key), modes.CBC(iv)).encryptor()
    return enc.update(data) + enc.finalize()


def aes_ecb_encrypt(key, data):
    enc = Cipher(algorithms.AES(key), modes.ECB()).encryptor()
    return enc.update(data) + enc.finalize()


def pad_pw(pw):
    return (pw + PAD)[:32]


def hash_r6(pw, salt, udata=b""):
    k = hashlib.sha256(pw + salt + udata).digest()
    rnd = 0
    while True:
        k1 = (pw + k + udata) * 64
        e = aes_cbc_encrypt(k[:16], k[16:32], k1, pad=False)
        h = (hashlib.sha256, hashlib.sha384, hashlib.sha512)[sum(e[:16]) % 3]
        k = h(e).digest()
        rnd += 1
        if rnd >= 64 and e[-1] <= rnd - 32:
            break
    return k[:32]


def prep_r6(password):
    """Password preparation for R5/R6: the workload restricts passwords to strings on which SASLprep is NFKC."""
    return unicodedata.normalize("NFKC", password).encode("utf-8")[:127]


class Handler:
    """Computes the Encrypt dictionary and encrypts strings/streams for one configuration."""

    def __init__(self, v, r, keybits, cfm, user_pw, owner_pw, p, docid, encrypt_metadata, rnd):
        """user_pw/owner_pw: str; rnd(n) -> n pseudo-random bytes (from the tape)."""
        self.v, self.r, self.cfm = v, r, cfm
        self.p = p & 0xFFFFFFFF
        self.docid = docid
        self.encrypt_metadata = encrypt_metadata
        self.rnd = rnd
        if r <= 4:
            self.n = 5 if r == 2 else keybits // 8
            upw = user_pw.encode("latin-1")
            opw = owner_pw.encode("latin-1") if owner_pw else upw
            # Algorithm 3: O
            h = hashlib.md5(pad_pw(opw)).digest()
            if r >= 3:
                for _ in range(50):
                    h = hashlib.md5(h).digest()
            okey = h[: self.n]
            o = rc4(okey, pad_pw(upw))
            if r >= 3:
                for i in range(1, 20):
                    o = rc4(bytes(c ^ i for c in okey), o)
            self.o = o
            # Algorithm 2: file key
            m = hashlib.md5(pad_pw(upw) + self.o + struct.pack("<I", self.p) + (docid or b""))
            if r >= 4 and not encrypt_metadata:
                m.update(b"\xff\xff\xff\xff")
            k = m.digest()
            if r >= 3:
                for _ in range(50):
                    k = hashlib.md5(k[: self.n]).digest()
            self.key = k[: self.n]
            # Algorithm 4/5: U
            if r == 2:
                self.u = rc4(self.key, PAD)
            else:
                x = rc4(self.key, hashlib.md5(PAD + (docid or b"")).digest())
                for i in range(1, 20):
                    x = rc4(bytes(c ^ i for c in self.key), x)
                self.u = x + rnd(16)
        else:
            self.n = 32
            self.key = rnd(32)
            upw, opw = prep_r6(user_pw), prep_r6(owner_pw if owner_pw else user_pw)
            hf = (lambda pw, salt, ud=b"": hashlib.sha256(pw + salt + ud).digest()) if r == 5 else hash_r6
            uvs, uks, ovs, oks = rnd(8), rnd(8), rnd(8), rnd(8)
            self.u = hf(upw, uvs) + uvs + uks
            self.ue = aes_cbc_encrypt(hf(upw, uks), bytes(16), self.key, pad=False)
            self.o = hf(opw, ovs, self.u) + ovs + oks
            self.oe = aes_cbc_encrypt(hf(opw, oks, self.u), bytes(16), self.key, pad=False)
            perms = struct.pack("<I", self.p) + b"\xff\xff\xff\xff" + (b"T" if encrypt_metadata else b"F") + b"adb" + rnd(4)
            self.perms = aes_ecb_encrypt(self.key, perms)

    # ------------------------------------------------------------------ Encrypt dictionary
    def encrypt_dict(self, explicit_length=True):
        p_signed = self.p - (1 << 32) if self.p & 0x80000000 else self.p
        d = {b"Filter": Name(b"Standard"), b"V": self.v, b"R": self.r, b"O": Str(self.o), b"U": Str(self.u), b"P": p_signed}
        if self.v == 2 or (self.v == 1 and explicit_length and False):
            d[b"Length"] = self.n * 8
        if self.v >= 4:
            cf = {b"CFM": Name(self.cfm.encode()), b"AuthEvent": Name(b"DocOpen"), b"Length": 16 if self.v == 4 else 32}
            if self.cfm == "Identity":
                d[b"StmF"] = Name(b"Identity")
                d[b"StrF"] = Name(b"Identity")
            else:
                d[b"CF"] = {b"StdCF": cf}
                d[b"StmF"] = Name(b"StdCF")
                d[b"StrF"] = Name(b"StdCF")
            if explicit_length or self.v != 4:
                # the top-level /Length is optional; for V 4 the key length follows from the crypt filter (128 bits)
                d[b"Length"] = 128 if self.v == 4 else 256
            if not self.encrypt_metadata or explicit_length:
                d[b"EncryptMetadata"] = self.encrypt_metadata
        if self.v == 5:
            d[b"OE"] = Str(self.oe)
            d[b"UE"] = Str(self.ue)
            d[b"Perms"] = Str(self.perms)
        return d

    # ------------------------------------------------------------------ per-object encryption
    def _objkey(self, num, gen, aes):
        k = self.key + struct.pack("<I", num)[:3] + struct.pack("<I", gen)[:2]
        if aes:
            k += b"sAlT"
        return hashlib.md5(k).digest()[: min(self.n + 5, 16)]

    def encrypt_bytes(self, num, gen, data):
        if self.cfm == "Identity":
            return data
        if self.cfm == "V2" or self.v <= 2:
            return rc4(self._objkey(num, gen, False), data)
        iv = self.rnd(16)
        key = self._objkey(num, gen, True) if self.cfm == "AESV2" else self.key
        return iv + aes_cbc_encrypt(key, iv, data)

    def encrypt_value(self, num, gen, v):
        """Deep copy of v with every string (and, for streams, the payload) encrypted for object (num, gen)."""
        if isinstance(v, Str):
            return Str(self.encrypt_bytes(num, gen, v.b), v.hex)
        if isinstance(v, (bytes, bytearray)):
            return Str(self.encrypt_bytes(num, gen, bytes(v)))
        if isinstance(v, list):
            return [self.encrypt_value(num, gen, x) for x in v]
        if isinstance(v, dict):
            return {k: self.encrypt_value(num, gen, x) for k, x in v.items()}
        if isinstance(v, Stream):
            d = self.encrypt_value(num, gen, v.dict)
            is_meta = v.dict.get(b"Type") == Name(b"Metadata")
            is_xref = v.dict.get(b"Type") == Name(b"XRef")
            if is_xref or (is_meta and not self.encrypt_metadata and self.v >= 4):
                raw = v.raw
                if is_xref:
                    d = v.dict
            else:
                raw = self.encrypt_bytes(num, gen, v.raw)
            d = dict(d)
            d[b"Length"] = len(raw)
            return Stream(d, raw, v.eol, v.pre_end)
        return v
