"""The decision tape: one integer decides everything (DESIGN 3.1).

Every random choice of a run is drawn through Tape.draw(n, label).  In generate
mode values come from random.Random(seed) and are recorded; in replay mode they
are read back from the recorded list (reduced modulo n when out of range, 0 when
the list is exhausted).  A run is a pure function of (tape, item, code).
"""
import hashlib
import random


def derive_seed(*parts) -> int:
    h = hashlib.sha256(("|".join(str(p) for p in parts)).encode()).digest()
    return int.from_bytes(h[:8], "big")


class Tape:
    __slots__ = ("rng", "replay", "rec", "pos", "h", "ndraw")

    def __init__(self, seed=None, replay=None):
        self.replay = list(replay) if replay is not None else None
        self.rng = random.Random(seed) if replay is None else None
        self.rec = []
        self.pos = 0
        self.h = hashlib.sha256()
        self.ndraw = 0

    # -- the one primitive ------------------------------------------------
    def draw(self, n: int, label: str = "") -> int:
        if n <= 1:
            return 0
        if self.replay is None:
            v = self.rng.randrange(n)
        else:
            v = self.replay[self.pos] if self.pos < len(self.replay) else 0
            self.pos += 1
            if v >= n or v < 0:
                v %= n
        self.rec.append(v)
        self.ndraw += 1
        self.h.update(b"%d/%d;" % (v, n))
        return v

    # -- conveniences (all built on draw) -----------------------------------
    def coin(self, num: int, den: int = 100, label: str = "") -> bool:
        """True with probability num/den.  0 on the tape means False."""
        return self.draw(den, label) >= den - num

    def pick(self, seq, label: str = ""):
        return seq[self.draw(len(seq), label)]

    def rint(self, lo: int, hi: int, label: str = "") -> int:
        """Uniform integer in [lo, hi]."""
        return lo + self.draw(hi - lo + 1, label)

    def weighted(self, weights, label: str = "") -> int:
        tot = sum(weights)
        r = self.draw(tot, label)
        for i, w in enumerate(weights):
            if r < w:
                return i
            r -= w
        return len(weights) - 1

    def bytes(self, n: int, label: str = "") -> bytes:
        return bytes(self.draw(256, label) for _ in range(n))

    def shuffle(self, seq, label: str = ""):
        seq = list(seq)
        for i in range(len(seq) - 1, 0, -1):
            j = self.draw(i + 1, label)
            seq[i], seq[j] = seq[j], seq[i]
        return seq

    def subset(self, seq, num=50, den=100, label=""):
        return [x for x in seq if self.coin(num, den, label)]

    def note(self, s) -> None:
        """Mix an observation into the run digest (never draws)."""
        if not isinstance(s, bytes):
            s = repr(s).encode("utf-8", "backslashreplace")
        self.h.update(b"#" + s + b";")

    def digest(self) -> str:
        return self.h.hexdigest()
