"""Independent encoders for the PDF stream filters and predictors (harness code; never imports pdfminer)."""
import zlib


# ----------------------------------------------------------------------------- ASCIIHex
def asciihex_encode(data, tape=None):
    hx = data.hex()
    if tape is None:
        return hx.encode() + b">"
    out = bytearray()
    odd = bool(data) and (data[-1] & 0x0F) == 0 and tape.coin(50, 100, "ahx.odd")
    if odd:
        hx = hx[:-1]
    for i, ch in enumerate(hx):
        if tape.coin(6, 100, "ahx.ws"):
            out += tape.pick([b" ", b"\n", b"\r\n", b"\t"], "ahx.wsb")
        out += (ch.upper() if tape.coin(50, 100, "ahx.case") else ch).encode()
    out += b">"
    return bytes(out)


# ----------------------------------------------------------------------------- ASCII85
def ascii85_encode(data, tape=None):
    out = bytearray()
    n = len(data)
    i = 0
    col = 0
    while i < n:
        chunk = data[i : i + 4]
        i += 4
        k = len(chunk)
        v = int.from_bytes(chunk + b"\x00" * (4 - k), "big")
        if v == 0 and k == 4:
            out += b"z"
        else:
            digits = bytearray(5)
            for j in range(4, -1, -1):
                digits[j] = 33 + v % 85
                v //= 85
            out += digits[: k + 1]
        if tape is not None and tape.coin(8, 100, "a85.ws"):
            out += tape.pick([b"\n", b" ", b"\r\n"], "a85.wsb")
    out += b"~>"
    return bytes(out)


# ----------------------------------------------------------------------------- RunLength
def runlength_encode(data, tape=None):
    out = bytearray()
    i = 0
    n = len(data)
    while i < n:
        # length of the run of equal bytes at i
        j = i
        while j < n and j - i < 128 and data[j] == data[i]:
            j += 1
        run = j - i
        use_run = run >= 2 and (tape is None or run >= 3 or tape.coin(50, 100, "rl.run2"))
        if use_run:
            if tape is not None and run > 2 and tape.coin(20, 100, "rl.shorter"):
                run = 2 + tape.draw(run - 1, "rl.len")
            out += bytes((257 - run, data[i]))
            i += run
        else:
            # literal: up to 128 bytes
            maxlit = min(128, n - i)
            lit = maxlit if tape is None else 1 + tape.draw(maxlit, "rl.lit")
            if tape is None:
                # stop the literal before a long run
                k = i + 1
                while k < i + lit and not (k + 2 < n and data[k] == data[k + 1] == data[k + 2]):
                    k += 1
                lit = k - i
            out += bytes((lit - 1,)) + data[i : i + lit]
            i += lit
    out += b"\x80"
    return bytes(out)


# ----------------------------------------------------------------------------- LZW (EarlyChange = 1)
def lzw_encode(data, tape=None):
    """PDF LZWDecode with the default EarlyChange=1.

    Code widths follow the *decoder's* table size as ISO 32000-1 7.4.4.2 describes it: the decoder adds one
    entry per received code (except the first after a clear-table) and switches to 10/11/12 bits when its
    table reaches 511/1023/2047 entries.  A clear-table is emitted before the table would pass 4095, and at
    tape-chosen earlier points."""
    bits = []  # (code, width)
    state = {"nbits": 9, "declen": 258, "first": True}

    def emit(code):
        bits.append((code, state["nbits"]))
        if code == 256:
            state["nbits"] = 9
            state["declen"] = 258
            state["first"] = True
            return
        if code == 257:
            return
        if state["first"]:
            state["first"] = False
            return
        state["declen"] += 1
        if state["declen"] in (511, 1023, 2047):
            state["nbits"] += 1

    def fresh():
        return {bytes((i,)): i for i in range(256)}, 258

    emit(256)
    table, nxt = fresh()
    w = b""
    for c in data:
        wc = w + bytes((c,))
        if wc in table:
            w = wc
            continue
        emit(table[w])
        table[wc] = nxt
        nxt += 1
        w = bytes((c,))
        early = tape is not None and tape.coin(1, 400, "lzw.clear")
        if nxt >= 4094 or early:
            # flush nothing else: w restarts the dictionary after the clear code
            emit(256)
            table, nxt = fresh()
    if w:
        emit(table[w])
    emit(257)
    acc = 0
    nacc = 0
    out = bytearray()
    for code, width in bits:
        acc = (acc << width) | code
        nacc += width
        while nacc >= 8:
            nacc -= 8
            out.append((acc >> nacc) & 0xFF)
    if nacc:
        out.append((acc << (8 - nacc)) & 0xFF)
    return bytes(out)


# ----------------------------------------------------------------------------- Flate
def flate_encode(data, tape=None):
    level = 6 if tape is None else tape.pick([0, 1, 6, 9], "fl.level")
    return zlib.compress(data, level)


ENCODERS = {
    "ASCIIHexDecode": asciihex_encode,
    "ASCII85Decode": ascii85_encode,
    "LZWDecode": lzw_encode,
    "FlateDecode": flate_encode,
    "RunLengthDecode": runlength_encode,
}
ABBREV = {"ASCIIHexDecode": "AHx", "ASCII85Decode": "A85", "LZWDecode": "LZW", "FlateDecode": "Fl", "RunLengthDecode": "RL"}


# ----------------------------------------------------------------------------- predictors
def paeth(a, b, c):
    p = a + b - c
    pa, pb, pc = abs(p - a), abs(p - b), abs(p - c)
    if pa <= pb and pa <= pc:
        return a
    if pb <= pc:
        return b
    return c


def row_bytes(colors, columns, bits):
    return (colors * columns * bits + 7) // 8


def tiff_predict(data, colors, columns, bits=8):
    """TIFF predictor 2, 8-bit samples: horizontal differencing per colour component."""
    assert bits == 8
    bpp = colors
    n = row_bytes(colors, columns, bits)
    out = bytearray()
    for r in range(0, len(data), n):
        row = data[r : r + n]  # (the last row may be incomplete)
        out += bytes((row[i] - (row[i - bpp] if i >= bpp else 0)) & 0xFF for i in range(len(row)))
    return bytes(out)


def png_predict(data, colors, columns, bits, row_filters):
    """PNG predictors: every row gets a filter-type byte from row_filters (cyclic) and is filtered accordingly."""
    bpp = max(1, colors * bits // 8)
    n = row_bytes(colors, columns, bits)
    assert len(data) % n == 0
    out = bytearray()
    prior = bytes(n)
    for ri, r in enumerate(range(0, len(data), n)):
        row = data[r : r + n]
        ft = row_filters[ri % len(row_filters)]
        out.append(ft)
        for i in range(n):
            a = row[i - bpp] if i >= bpp else 0
            b = prior[i]
            c = prior[i - bpp] if i >= bpp else 0
            if ft == 0:
                p = 0
            elif ft == 1:
                p = a
            elif ft == 2:
                p = b
            elif ft == 3:
                p = (a + b) // 2
            else:
                p = paeth(a, b, c)
            out.append((row[i] - p) & 0xFF)
        prior = row
    return bytes(out)
