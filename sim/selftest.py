"""Self-tests that are not property checks (DESIGN 3.7).

determinism : N seeds per engine, each run in a forked child and in fresh interpreters under other
              PYTHONHASHSEED values; digests of the run logs must agree.
sensitivity : each canary edit (canaries/canaries.py) is applied to a scratch copy of the repository;
              the corresponding quick check must exit 1 (and the pinned suite must still pass there).
"""
import importlib.util
import json
import os
import shutil
import subprocess
import sys
import tempfile
import time

from . import core

VERIF = core.VERIF


def _canaries():
    spec = importlib.util.spec_from_file_location("canaries", os.path.join(VERIF, "canaries", "canaries.py"))
    m = importlib.util.module_from_spec(spec)
    spec.loader.exec_module(m)
    return m.CANARIES


def make_scratch(repo="/repo"):
    d = tempfile.mkdtemp(prefix="verif-scratch-", dir=os.environ.get("VERIF_SCRATCH"))
    shutil.copytree(os.path.join(repo, "pdfminer"), os.path.join(d, "pdfminer"), ignore=shutil.ignore_patterns("__pycache__"))
    for name in ("samples", "tests", "tools", "pyproject.toml"):
        os.symlink(os.path.join(repo, name), os.path.join(d, name))
    return d


def run_suite(scratch):
    env = dict(os.environ)
    env["PYTHONPATH"] = scratch
    env["PYTHONDONTWRITEBYTECODE"] = "1"
    p = subprocess.run(
        ["/venv/bin/python", "-m", "pytest", "-q", "-p", "no:cacheprovider", "-n", "8", "--rootdir", scratch, os.path.join(scratch, "tests")],
        cwd=scratch, env=env, capture_output=True, text=True, timeout=900,
    )
    tail = p.stdout.strip().splitlines()[-1] if p.stdout.strip() else p.stderr[-300:]
    return tail


def sensitivity(only, tier):
    rows = []
    want = set(only.split(",")) if only else None
    for c in _canaries():
        if want and c["name"] not in want and c["property"] not in want:
            continue
        scratch = make_scratch()
        try:
            path = os.path.join(scratch, c["file"])
            src = open(path).read()
            if src.count(c["old"]) != 1:
                rows.append((c["name"], c["property"], "STALE (old text occurs %d times)" % src.count(c["old"]), ""))
                continue
            open(path, "w").write(src.replace(c["old"], c["new"]))
            env = dict(os.environ)
            env.update(VERIF_REPO=scratch, VERIF_SKIP_DET="1", PYTHONHASHSEED="0")
            t0 = time.time()
            p = subprocess.run([os.path.join(VERIF, "check"), c["property"], "--tier", tier], env=env, capture_output=True, text=True, timeout=3600)
            viol = [l for l in p.stdout.splitlines() if l.startswith("VIOLATION")]
            sigs = [l.strip() for l in p.stdout.splitlines() if l.startswith("  C") and ":" in l][:2]
            suite = run_suite(scratch) if c.get("suite", True) and os.environ.get("VERIF_CANARY_SUITE", "1") == "1" else "skipped"
            rows.append((c["name"], c["property"], "DETECTED" if p.returncode == 1 and viol else "MISSED rc=%d" % p.returncode, "%.0fs suite=%s %s" % (time.time() - t0, suite, (sigs[0][:140] if sigs else ""))))
        finally:
            shutil.rmtree(scratch, ignore_errors=True)
    missed = 0
    for r in rows:
        print("%-40s %-4s %-10s %s" % r)
        if not r[2].startswith("DETECTED"):
            missed += 1
    print("sensitivity: %d canaries, %d not detected" % (len(rows), missed))
    # restore evidence of the real tree is the caller's business (evidence files are rewritten by these runs)
    return 1 if missed else 0


def determinism(only, tier):
    n = 24 if tier == "quick" else 200
    bad = 0
    pids = only.split(",") if only else sorted(core.ENGINES)
    for pid in pids:
        if not os.path.exists(os.path.join(VERIF, core.ENGINES[pid].replace(".", "/") + ".py")):
            continue
        outs = []
        for hs, jobs in (("0", "1"), ("271828", "4"), ("99", "1")):
            env = dict(os.environ)
            env.update(PYTHONHASHSEED=hs, VERIF_NO_REEXEC="1")
            chunks = []
            procs = []
            per = (n + int(jobs) - 1) // int(jobs)
            for j in range(int(jobs)):
                procs.append(subprocess.Popen([sys.executable, os.path.join(VERIF, "check"), pid, "--digest", "7", str(8000 + j), str(per)], env=env, stdout=subprocess.PIPE, text=True))
            for p in procs:
                out, _ = p.communicate(timeout=1800)
                chunks.append(out.strip().splitlines()[-1] if out.strip() else "FAILED")
            outs.append((hs, jobs, chunks))
        # compare batch 8000 (present in every configuration) digests
        ref = outs[0][2][0]
        ref_list = json.loads(ref) if ref != "FAILED" else None
        ok = ref_list is not None
        for hs, jobs, chunks in outs[1:]:
            if chunks[0] == "FAILED":
                ok = False
                continue
            other = json.loads(chunks[0])
            m = min(len(other), len(ref_list or []))
            if not ref_list or other[:m] != ref_list[:m] or m == 0:
                ok = False
        print("%s determinism over %d runs x 3 interpreter configurations: %s" % (pid, n, "OK" if ok else "MISMATCH"))
        bad += 0 if ok else 1
    return 2 if bad else 0


def main(which, only, tier):
    core.import_sut()
    if which == "sensitivity":
        return sensitivity(only, tier)
    return determinism(only, tier)
