"""Shared comparison of pdfminer results with SimWriter model values."""
from .pdfwriter import Name, Real, Ref, Str, Stream

_b = {}


def bind():
    if _b:
        return _b
    from pdfminer.pdftypes import PDFObjRef, PDFStream
    from pdfminer.psparser import LIT, PSKeyword, PSLiteral

    _b.update(PDFObjRef=PDFObjRef, PDFStream=PDFStream, LIT=LIT, PSKeyword=PSKeyword, PSLiteral=PSLiteral)
    return _b


def keytext(k):
    try:
        return k.decode("utf-8")
    except UnicodeDecodeError:
        return str(k)


def match(m, r, quirks, path, out, stream_data=None):
    """Append (path, kind, detail, known-sig or None) for every mismatch of real r against model m.

    stream_data: callable(model Stream) -> expected decoded bytes (default: raw, i.e. unfiltered)."""
    b = bind()
    if m is None:
        if r is not None:
            out.append((path, "null", "expected None, got %r" % (r,), None))
    elif isinstance(m, bool):
        if r is not m:
            out.append((path, "bool", "expected %r, got %r" % (m, r), None))
    elif isinstance(m, int):
        if type(r) is not int or r != m:
            out.append((path, "int", "expected %r, got %r" % (m, r), None))
    elif isinstance(m, Real):
        if type(r) is not float or r != m.value():
            out.append((path, "real", "expected float(%s), got %r" % (m.text, r), None))
    elif isinstance(m, float):
        if type(r) not in (float, int) or r != m:
            out.append((path, "real", "expected %r, got %r" % (m, r), None))
    elif isinstance(m, Name):
        try:
            want = m.b.decode("utf-8")
        except UnicodeDecodeError:
            want = m.b
        if not isinstance(r, b["PSLiteral"]) or r.name != want or type(r.name) is not type(want):
            out.append((path, "name", "expected /%r, got %r" % (want, r), None))
        elif r is not b["LIT"](want):
            out.append((path, "name-not-interned", "%r" % (r,), None))
    elif isinstance(m, (bytes, bytearray)):
        if type(r) is not bytes or r != bytes(m):
            out.append((path, "string", "expected %r, got %r" % (m, r), None))
    elif isinstance(m, Str):
        if type(r) is not bytes or r != m.b:
            q = quirks.get(id(m)) if quirks else None
            if q is not None and r == q[1]:
                out.append((path, "string", "expected %r, got %r" % (m.b, r), q[0]))
            else:
                out.append((path, "string", "expected %r, got %r" % (m.b, r), None))
    elif isinstance(m, Ref):
        if not isinstance(r, b["PDFObjRef"]) or r.objid != m.num:
            out.append((path, "ref", "expected %r, got %r" % (m, r), None))
    elif isinstance(m, (list, tuple)):
        if type(r) is not list or len(r) != len(m):
            out.append((path, "array", "expected %d items, got %r" % (len(m), r), None))
        else:
            for i, (x, y) in enumerate(zip(m, r)):
                match(x, y, quirks, path + "[%d]" % i, out, stream_data)
    elif isinstance(m, dict):
        # keys are reported as text: UTF-8 decoded, or - pdfminer's convention for names that are not UTF-8 - as the
        # repr of the bytes ("b'\\xe9'"); either way distinct names stay distinct keys
        want = {keytext(k): v for k, v in m.items() if v is not None}
        if type(r) is not dict or set(r) != set(want):
            out.append((path, "dict", "expected keys %r, got %r" % (sorted(want), r), None))
        else:
            for k in want:
                match(want[k], r[k], quirks, path + "/" + k, out, stream_data)
    elif isinstance(m, Stream):
        if not isinstance(r, b["PDFStream"]):
            out.append((path, "stream", "expected a stream, got %r" % (r,), None))
        else:
            match(m.dict, r.attrs, quirks, path + "<dict>", out, stream_data)
            want = stream_data(m) if stream_data else m.raw
            try:
                got = r.get_data()
            except Exception as e:
                out.append((path, "stream-data", "get_data() raised %r" % (e,), None))
            else:
                if got != want:
                    out.append((path, "stream-data", "expected %d bytes %r.., got %d bytes %r.." % (len(want), want[:40], len(got), got[:40]), None))
    else:
        raise AssertionError("model kind %r" % (m,))


def canon(r):
    """Hashable, comparable rendering of a pdfminer value (for cross-schedule identity)."""
    b = bind()
    if isinstance(r, b["PSLiteral"]):
        return ("L", r.name)
    if isinstance(r, b["PSKeyword"]):
        return ("K", r.name)
    if isinstance(r, b["PDFObjRef"]):
        return ("R", r.objid)
    if isinstance(r, list):
        return ("A",) + tuple(canon(x) for x in r)
    if isinstance(r, dict):
        return ("D",) + tuple((k, canon(v)) for k, v in r.items())
    if isinstance(r, float):
        return ("F", repr(r))
    if isinstance(r, b["PDFStream"]):
        return ("S", canon(r.attrs), r.rawdata)
    return (type(r).__name__, r)


def where(exc):
    """Innermost pdfminer function on the traceback of exc."""
    tb = exc.__traceback__
    name = "?"
    while tb is not None:
        if "pdfminer" in tb.tb_frame.f_code.co_filename:
            name = tb.tb_frame.f_code.co_name
        tb = tb.tb_next
    return name
