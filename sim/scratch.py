"""Guarded scratch directories: every path created or removed through a Scratch object is checked to resolve inside
the object's own freshly made temporary directory (see the incident note in checks/c15.py)."""
import os
import shutil
import tempfile

from .core import HarnessError


class Scratch:
    def __init__(self, prefix):
        assert prefix.startswith("verif-") and prefix.endswith("-")
        self.prefix = prefix
        self.tmp = os.path.realpath(os.environ.get("VERIF_SCRATCH") or tempfile.gettempdir())
        self.top = os.path.realpath(tempfile.mkdtemp(prefix=prefix, dir=self.tmp))
        self.check(self.top)

    def check(self, path):
        top = self.top
        if not (os.path.isabs(top) and os.path.dirname(top) == self.tmp and os.path.basename(top).startswith(self.prefix)):
            raise HarnessError("scratch directory is not what it should be: %r" % (top,))
        real = os.path.realpath(path)
        if real != top and not real.startswith(top + os.sep):
            raise HarnessError("harness refused to touch %r (outside %r)" % (path, top))
        return real

    def path(self, *parts):
        return self.check(os.path.join(self.top, *parts))

    def makedirs(self, *parts):
        p = self.path(*parts)
        os.makedirs(p, exist_ok=True)
        return p

    def write(self, relpath, data):
        p = self.path(relpath)
        os.makedirs(self.check(os.path.dirname(p)), exist_ok=True)
        with open(p, "wb") as f:
            f.write(data)
        return p

    def token(self):
        return os.path.basename(self.top)

    def cleanup(self):
        shutil.rmtree(self.check(self.top), ignore_errors=True)
