"""The fixed family of feature-covering seed documents for C13 (constant parameters: independent of VERIF_SEED).

Each seed is a model document {id: value} plus the role of every object (used in finding signatures) and the
physical form it is written in.
"""
import zlib
from fractions import Fraction as F

from . import encoders
from .docs import build_pdf, content_stream, std_font
from .pdfwriter import Name, Ref, Str, Stream


class Seed:
    def __init__(self, name, objects, roles, root=1, info=None, form="table", pack=None, trailer_extra=None, flate_containers=True, encrypt=None, encrypt_skip=()):
        self.flate_containers = flate_containers
        self.encrypt = encrypt  # a sim.crypt.Handler: the objects are the plaintext model, encrypted when written
        self.encrypt_skip = encrypt_skip
        self.name = name
        self.objects = objects
        self.roles = roles
        self.root = root
        self.info = info
        self.form = form
        self.pack = pack
        self.trailer_extra = trailer_extra

    def build(self, objects=None, container_hook=None):
        return self.writer(objects, container_hook).getvalue()

    def writer(self, objects=None, container_hook=None, encrypt=None):
        return build_pdf(objects if objects is not None else self.objects, self.root, info=self.info, form=self.form, pack=self.pack, trailer_extra=self.trailer_extra, flate_containers=self.flate_containers, encrypt=encrypt if encrypt is not None else self.encrypt, encrypt_skip=self.encrypt_skip, container_hook=container_hook)

    def container_dicts(self):
        """{kind: dictionary} of the streams the writer adds itself ('objstm', 'xref')."""
        seen = {}
        self.writer(None, lambda kind, d: seen.__setitem__(kind, dict(d)))
        return seen

    def base_writer(self):
        """The unfaulted document, written once (encrypted seeds draw fresh IVs on every write)."""
        if getattr(self, "_base", None) is None:
            self._base = self.writer()
        return self._base

    def container_streams(self):
        """(object number, offset, length) of the payloads of streams the writer added itself (object/xref streams)."""
        fw = self.base_writer()
        return [(n, pos, ln) for (n, pos, ln) in fw.marks.get("stream_data", []) if n not in self.objects]


TOUNICODE = b"""/CIDInit /ProcSet findresource begin
12 dict begin
begincmap
/CIDSystemInfo << /Registry (Adobe) /Ordering (UCS) /Supplement 0 >> def
/CMapName /Adobe-Identity-UCS def
/CMapType 2 def
1 begincodespacerange
<00> <FF>
endcodespacerange
2 beginbfchar
<41> <0058>
<42> <00590059>
endbfchar
1 beginbfrange
<43> <45> <0061>
endbfrange
endcmap
CMapName currentdict /CMap defineresource pop
end
end
"""

TOUNICODE16 = TOUNICODE.replace(b"<00> <FF>", b"<0000> <FFFF>").replace(b"<41> <0058>", b"<0041> <0058>").replace(b"<42> <00590059>", b"<0042> <00590059>").replace(b"<43> <45> <0061>", b"<0043> <0045> [<0061> <0062> <0063>]")


def s_classic():
    content = b"BT /F1 12 Tf 1 Tc 2 Tw 90 Tz 14 TL 1 Ts 0 Tr 72 700 Td (Hello World) Tj 0 -14 Td [(A) -120 (B)] TJ T* (q) ' 1 2 (r) \" 1 0 0 1 72 600 Tm (s) Tj ET q 1 0 0 1 10 10 cm 0 0 50 20 re S Q"
    o = {
        1: {b"Type": Name(b"Catalog"), b"Pages": Ref(2, 0)},
        2: {b"Type": Name(b"Pages"), b"Kids": [Ref(3, 0)], b"Count": 1},
        3: {b"Type": Name(b"Page"), b"Parent": Ref(2, 0), b"MediaBox": [0, 0, 612, 792], b"Contents": Ref(4, 0), b"Resources": {b"Font": {b"F1": Ref(5, 0)}, b"ProcSet": [Name(b"PDF"), Name(b"Text")]}, b"Rotate": 0},
        4: content_stream(content),
        5: std_font(b"Helvetica"),
        6: {b"Producer": Str(b"verif"), b"Title": Str(b"seed")},
    }
    roles = {1: "Catalog", 2: "Pages", 3: "Page", 4: "ContentStream", 5: "Font:Std14", 6: "Info"}
    return Seed("classic", o, roles, info=6)


def s_xrefstream():
    c1 = b"BT /F1 10 Tf 50 500 Td (Page one) Tj ET"
    c2 = b"BT /F2 10 Tf 50 500 Td (Page two) Tj ET 0.5 g 10 10 m 100 10 l 100 100 l h f"
    o = {
        1: {b"Type": Name(b"Catalog"), b"Pages": Ref(2, 0)},
        2: {b"Type": Name(b"Pages"), b"Kids": [Ref(3, 0), Ref(6, 0)], b"Count": 2, b"Resources": {b"Font": {b"F1": Ref(9, 0), b"F2": Ref(10, 0)}}, b"MediaBox": [0, 0, 400, 600]},
        3: {b"Type": Name(b"Pages"), b"Parent": Ref(2, 0), b"Kids": [Ref(4, 0)], b"Count": 1, b"Rotate": 90},
        4: {b"Type": Name(b"Page"), b"Parent": Ref(3, 0), b"Contents": [Ref(5, 0)]},
        5: content_stream(c1, flate=True),
        6: {b"Type": Name(b"Page"), b"Parent": Ref(2, 0), b"Contents": Ref(7, 0), b"CropBox": [10, 10, 390, 590], b"MediaBox": Ref(8, 0)},
        7: content_stream(c2, flate=True),
        8: [0, 0, 500, 700],
        9: std_font(b"Courier"),
        10: std_font(b"Times-Roman"),
    }
    roles = {1: "Catalog", 2: "Pages", 3: "Pages", 4: "Page", 5: "ContentStream", 6: "Page", 7: "ContentStream", 8: "BoxArray", 9: "Font:Std14", 10: "Font:Std14"}
    return Seed("xrefstream", o, roles, form="stream", pack=[1, 2, 3, 4, 6, 8, 9, 10])


def s_fonts():
    content = b"BT /T1 12 Tf 20 700 Td (ABCDE) Tj /TT 11 Tf 0 -20 Td (ABC) Tj /T3 9 Tf 0 -20 Td (AB) Tj /T0 10 Tf 0 -20 Td <004100420043> Tj ET"
    widths = [500 + 10 * (i % 7) for i in range(32, 128)]
    o = {
        1: {b"Type": Name(b"Catalog"), b"Pages": Ref(2, 0)},
        2: {b"Type": Name(b"Pages"), b"Kids": [Ref(3, 0)], b"Count": 1},
        3: {b"Type": Name(b"Page"), b"Parent": Ref(2, 0), b"MediaBox": [0, 0, 612, 792], b"Contents": Ref(4, 0), b"Resources": {b"Font": {b"T1": Ref(5, 0), b"TT": Ref(8, 0), b"T3": Ref(10, 0), b"T0": Ref(13, 0)}}},
        4: content_stream(content),
        5: {b"Type": Name(b"Font"), b"Subtype": Name(b"Type1"), b"BaseFont": Name(b"ABCDEF+Custom"), b"FirstChar": 32, b"LastChar": 127, b"Widths": widths, b"FontDescriptor": Ref(6, 0), b"Encoding": {b"Type": Name(b"Encoding"), b"BaseEncoding": Name(b"WinAnsiEncoding"), b"Differences": [65, Name(b"Alpha"), Name(b"uni0042"), 67, Name(b"c_a_t")]}, b"ToUnicode": Ref(7, 0)},
        6: {b"Type": Name(b"FontDescriptor"), b"FontName": Name(b"ABCDEF+Custom"), b"Flags": 32, b"FontBBox": [-100, -200, 1000, 900], b"ItalicAngle": 0, b"Ascent": 800, b"Descent": -200, b"CapHeight": 700, b"StemV": 80, b"MissingWidth": 250},
        7: content_stream(TOUNICODE, flate=True),
        8: {b"Type": Name(b"Font"), b"Subtype": Name(b"TrueType"), b"BaseFont": Name(b"Arial"), b"FirstChar": 65, b"LastChar": 70, b"Widths": [600, 610, 620, 630, 640, 650], b"FontDescriptor": Ref(9, 0), b"Encoding": Name(b"MacRomanEncoding")},
        9: {b"Type": Name(b"FontDescriptor"), b"FontName": Name(b"Arial"), b"Flags": 32, b"FontBBox": [0, -210, 1000, 900], b"ItalicAngle": 0, b"Ascent": 905, b"Descent": 212, b"CapHeight": 716, b"StemV": 80},
        10: {b"Type": Name(b"Font"), b"Subtype": Name(b"Type3"), b"FontBBox": [0, -100, 500, 500], b"FontMatrix": [F(1, 512), 0, 0, F(1, 512), 0, 0], b"CharProcs": {b"A": Ref(11, 0), b"B": Ref(12, 0)}, b"Encoding": {b"Type": Name(b"Encoding"), b"Differences": [65, Name(b"A"), Name(b"B")]}, b"FirstChar": 65, b"LastChar": 66, b"Widths": [256, 384], b"Resources": {}},
        11: content_stream(b"256 0 0 0 200 400 d1 0 0 200 400 re f"),
        12: content_stream(b"384 0 d0 0 0 300 400 re f"),
        13: {b"Type": Name(b"Font"), b"Subtype": Name(b"Type0"), b"BaseFont": Name(b"Composite"), b"Encoding": Name(b"Identity-H"), b"DescendantFonts": [Ref(14, 0)], b"ToUnicode": Ref(16, 0)},
        14: {b"Type": Name(b"Font"), b"Subtype": Name(b"CIDFontType2"), b"BaseFont": Name(b"Composite"), b"CIDSystemInfo": {b"Registry": Str(b"Adobe"), b"Ordering": Str(b"Identity"), b"Supplement": 0}, b"FontDescriptor": Ref(15, 0), b"DW": 750, b"W": [65, [500, 600], 70, 72, 800], b"CIDToGIDMap": Name(b"Identity")},
        15: {b"Type": Name(b"FontDescriptor"), b"FontName": Name(b"Composite"), b"Flags": 4, b"FontBBox": [0, -200, 1000, 800], b"ItalicAngle": 0, b"Ascent": 800, b"Descent": -200, b"CapHeight": 700, b"StemV": 80},
        16: content_stream(TOUNICODE16),
    }
    roles = {1: "Catalog", 2: "Pages", 3: "Page", 4: "ContentStream", 5: "Font:Type1", 6: "FontDescriptor", 7: "ToUnicode", 8: "Font:TrueType", 9: "FontDescriptor", 10: "Font:Type3", 11: "CharProc", 12: "CharProc", 13: "Font:Type0", 14: "Font:CID", 15: "FontDescriptor", 16: "ToUnicode"}
    return Seed("fonts", o, roles)


def s_forms_images():
    img = bytes((i * 7) % 256 for i in range(4 * 3))
    rgb = bytes((i * 11) % 256 for i in range(2 * 2 * 3))
    content = b"q 100 0 0 80 50 600 cm /Im1 Do Q /Fm1 Do BT /F1 9 Tf 10 10 Td (after) Tj ET q 20 0 0 20 300 300 cm BI /W 2 /H 2 /BPC 8 /CS /G /F [/AHx] /DP [null] ID 007fff10> EI Q /Im2 Do 1 0 0 RG 0 1 0 rg /DeviceCMYK cs 0 0 0 1 sc 5 w [2 1] 0 d 10 10 m 20 20 30 20 40 10 c S"
    formc = b"0.5 g BT /F1 8 Tf 5 5 Td (in form) Tj ET /Fm2 Do"
    formc2 = b"1 0 0 rg 0 0 10 10 re f"
    o = {
        1: {b"Type": Name(b"Catalog"), b"Pages": Ref(2, 0)},
        2: {b"Type": Name(b"Pages"), b"Kids": [Ref(3, 0)], b"Count": 1},
        3: {b"Type": Name(b"Page"), b"Parent": Ref(2, 0), b"MediaBox": [0, 0, 612, 792], b"Contents": Ref(4, 0), b"Resources": {b"Font": {b"F1": Ref(5, 0)}, b"XObject": {b"Im1": Ref(6, 0), b"Fm1": Ref(7, 0), b"Im2": Ref(9, 0)}, b"ColorSpace": {b"CS0": [Name(b"ICCBased"), Ref(10, 0)]}}},
        4: content_stream(content),
        5: std_font(b"Helvetica"),
        6: content_stream(img, flate=True, extra={b"Type": Name(b"XObject"), b"Subtype": Name(b"Image"), b"Width": 4, b"Height": 3, b"BitsPerComponent": 8, b"ColorSpace": Name(b"DeviceGray")}),
        7: content_stream(formc, extra={b"Type": Name(b"XObject"), b"Subtype": Name(b"Form"), b"BBox": [0, 0, 100, 100], b"Matrix": [1, 0, 0, 1, 200, 200], b"Resources": {b"Font": {b"F1": Ref(5, 0)}, b"XObject": {b"Fm2": Ref(8, 0)}}}),
        8: content_stream(formc2, extra={b"Type": Name(b"XObject"), b"Subtype": Name(b"Form"), b"BBox": [0, 0, 10, 10]}),
        9: content_stream(rgb, extra={b"Type": Name(b"XObject"), b"Subtype": Name(b"Image"), b"Width": 2, b"Height": 2, b"BitsPerComponent": 8, b"ColorSpace": Name(b"DeviceRGB")}),
        10: content_stream(b"\x00" * 32, extra={b"N": 3}),
    }
    roles = {1: "Catalog", 2: "Pages", 3: "Page", 4: "ContentStream", 5: "Font:Std14", 6: "Image", 7: "Form", 8: "Form", 9: "Image", 10: "ICCProfile"}
    return Seed("forms-images", o, roles)


def s_filters():
    text = b"BT /F1 12 Tf 30 700 Td (filtered text) Tj ET"
    a85 = encoders.ascii85_encode(zlib.compress(text))
    lzw = encoders.lzw_encode(b"BT /F1 12 Tf 30 650 Td (lzw text) Tj ET")
    rl = encoders.asciihex_encode(encoders.runlength_encode(b"BT /F1 12 Tf 30 600 Td (rl    text) Tj ET"))
    rows = bytes((i * 5) % 256 for i in range(6 * 4))
    png = zlib.compress(encoders.png_predict(rows, 1, 6, 8, [1, 2, 3, 4]))
    tiff = encoders.lzw_encode(encoders.tiff_predict(rows, 3, 2, 8))
    o = {
        1: {b"Type": Name(b"Catalog"), b"Pages": Ref(2, 0)},
        2: {b"Type": Name(b"Pages"), b"Kids": [Ref(3, 0)], b"Count": 1},
        3: {b"Type": Name(b"Page"), b"Parent": Ref(2, 0), b"MediaBox": [0, 0, 612, 792], b"Contents": [Ref(4, 0), Ref(5, 0), Ref(6, 0)], b"Resources": {b"Font": {b"F1": Ref(7, 0)}, b"XObject": {b"P": Ref(8, 0), b"T": Ref(9, 0)}}},
        4: Stream({b"Filter": [Name(b"ASCII85Decode"), Name(b"FlateDecode")], b"Length": len(a85)}, a85),
        5: Stream({b"Filter": Name(b"LZWDecode"), b"Length": Ref(10, 0)}, lzw),
        6: Stream({b"Filter": [Name(b"AHx"), Name(b"RL")], b"DecodeParms": [None, None], b"Length": len(rl)}, rl),
        7: std_font(b"Helvetica"),
        8: Stream({b"Type": Name(b"XObject"), b"Subtype": Name(b"Image"), b"Width": 6, b"Height": 4, b"BitsPerComponent": 8, b"ColorSpace": Name(b"DeviceGray"), b"Filter": Name(b"FlateDecode"), b"DecodeParms": {b"Predictor": 15, b"Columns": 6, b"Colors": 1, b"BitsPerComponent": 8}, b"Length": len(png)}, png),
        9: Stream({b"Type": Name(b"XObject"), b"Subtype": Name(b"Image"), b"Width": 2, b"Height": 4, b"BitsPerComponent": 8, b"ColorSpace": Name(b"DeviceRGB"), b"Filter": [Name(b"LZWDecode")], b"DecodeParms": [{b"Predictor": 2, b"Columns": 2, b"Colors": 3}], b"Length": len(tiff)}, tiff),
        10: len(lzw),
    }
    o[4].dict[b"Length"] = len(a85)
    # the page shows both images
    o[3][b"Contents"] = [Ref(4, 0), Ref(5, 0), Ref(6, 0), Ref(11, 0)]
    o[11] = content_stream(b"q 10 0 0 10 0 0 cm /P Do Q q 10 0 0 10 50 0 cm /T Do Q")
    ctext = b"BT /F1 12 Tf 30 550 Td (predicted!) Tj ET "  # 40 bytes = 5 rows of 8
    ctext = ctext[: len(ctext) // 8 * 8]
    pngc = zlib.compress(encoders.png_predict(ctext, 1, 8, 8, [2, 1, 4, 3, 0]))
    tifc = encoders.lzw_encode(encoders.tiff_predict(ctext.replace(b"550", b"500"), 2, 4, 8))
    o[12] = Stream({b"Filter": Name(b"FlateDecode"), b"DecodeParms": {b"Predictor": 12, b"Columns": 8}, b"Length": len(pngc)}, pngc)
    o[13] = Stream({b"Filter": [Name(b"LZWDecode")], b"DecodeParms": [{b"Predictor": 2, b"Columns": 4, b"Colors": 2, b"BitsPerComponent": 8}], b"Length": len(tifc)}, tifc)
    o[3][b"Contents"] = [Ref(4, 0), Ref(5, 0), Ref(6, 0), Ref(11, 0), Ref(12, 0), Ref(13, 0)]
    roles = {1: "Catalog", 2: "Pages", 3: "Page", 4: "ContentStream:A85+Fl", 5: "ContentStream:LZW", 6: "ContentStream:AHx+RL", 7: "Font:Std14", 8: "Image:PNGpred", 9: "Image:TIFFpred", 10: "LengthObject", 11: "ContentStream", 12: "ContentStream:PNGpred", 13: "ContentStream:TIFFpred"}
    return Seed("filters", o, roles)


def s_labels_outlines():
    def page(parent, cid):
        return {b"Type": Name(b"Page"), b"Parent": Ref(parent, 0), b"Contents": Ref(cid, 0)}

    o = {
        1: {b"Type": Name(b"Catalog"), b"Pages": Ref(2, 0), b"PageLabels": Ref(12, 0), b"Outlines": Ref(14, 0), b"Names": {b"Dests": Ref(17, 0)}, b"Dests": {b"old": [Ref(5, 0), Name(b"Fit")]}},
        2: {b"Type": Name(b"Pages"), b"Kids": [Ref(3, 0), Ref(9, 0)], b"Count": 3, b"MediaBox": [0, 0, 300, 300], b"Resources": {b"Font": {b"F1": Ref(11, 0)}}},
        3: {b"Type": Name(b"Pages"), b"Parent": Ref(2, 0), b"Kids": [Ref(4, 0)], b"Count": 2},
        4: {b"Type": Name(b"Pages"), b"Parent": Ref(3, 0), b"Kids": [Ref(5, 0), Ref(7, 0)], b"Count": 2, b"Rotate": 180},
        5: page(4, 6),
        6: content_stream(b"BT /F1 10 Tf 10 200 Td (first) Tj ET"),
        7: page(4, 8),
        8: content_stream(b"BT /F1 10 Tf 10 200 Td (second) Tj ET"),
        9: page(2, 10),
        10: content_stream(b"BT /F1 10 Tf 10 200 Td (third) Tj ET"),
        11: std_font(b"Times-Bold"),
        12: {b"Kids": [Ref(13, 0)]},
        13: {b"Nums": [0, {b"S": Name(b"r"), b"St": 3}, 1, {b"S": Name(b"D"), b"St": 5, b"P": Str(b"A-")}, 2, {b"S": Name(b"a"), b"St": 27}], b"Limits": [0, 2]},
        14: {b"Type": Name(b"Outlines"), b"First": Ref(15, 0), b"Last": Ref(16, 0), b"Count": 2},
        15: {b"Title": Str(b"Chapter 1"), b"Parent": Ref(14, 0), b"Next": Ref(16, 0), b"Dest": [Ref(5, 0), Name(b"XYZ"), 0, 300, None]},
        16: {b"Title": Str(b"\xfe\xff\x00C\x002"), b"Parent": Ref(14, 0), b"Prev": Ref(15, 0), b"A": {b"S": Name(b"GoTo"), b"D": Str(b"named")}},
        17: {b"Names": [Str(b"named"), [Ref(9, 0), Name(b"Fit")]], b"Limits": [Str(b"named"), Str(b"named")]},
    }
    roles = {1: "Catalog", 2: "Pages", 3: "Pages", 4: "Pages", 5: "Page", 6: "ContentStream", 7: "Page", 8: "ContentStream", 9: "Page", 10: "ContentStream", 11: "Font:Std14", 12: "NumberTreeRoot", 13: "NumberTreeLeaf", 14: "Outlines", 15: "OutlineItem", 16: "OutlineItem", 17: "NameTreeLeaf"}
    return Seed("labels-outlines", o, roles)


def s_cjk():
    content = b"BT /J 12 Tf 30 700 Td <8ea98ea9> Tj /K 12 Tf 0 -20 Td <0041> Tj /L 12 Tf 0 -20 Td <30423044> Tj /M 12 Tf 0 -20 Td <0041> Tj ET"
    o = {
        1: {b"Type": Name(b"Catalog"), b"Pages": Ref(2, 0)},
        2: {b"Type": Name(b"Pages"), b"Kids": [Ref(3, 0)], b"Count": 1},
        3: {b"Type": Name(b"Page"), b"Parent": Ref(2, 0), b"MediaBox": [0, 0, 612, 792], b"Contents": Ref(4, 0), b"Resources": {b"Font": {b"J": Ref(5, 0), b"K": Ref(8, 0), b"L": Ref(9, 0), b"M": Ref(12, 0)}}},
        4: content_stream(content),
        # L: a vertical font of the Japan1 collection and M: a horizontal one of the Korea1 collection, both with a
        # /ToUnicode stream (take the key away and the collection's own to-unicode table is loaded instead)
        9: {b"Type": Name(b"Font"), b"Subtype": Name(b"Type0"), b"BaseFont": Name(b"VertJ"), b"Encoding": Name(b"UniJIS-UCS2-V"), b"DescendantFonts": [Ref(10, 0)], b"ToUnicode": Ref(11, 0)},
        10: {b"Type": Name(b"Font"), b"Subtype": Name(b"CIDFontType0"), b"BaseFont": Name(b"VertJ"), b"CIDSystemInfo": {b"Registry": Str(b"Adobe"), b"Ordering": Str(b"Japan1"), b"Supplement": 2}, b"FontDescriptor": Ref(7, 0), b"DW": 1000},
        11: content_stream(TOUNICODE16),
        12: {b"Type": Name(b"Font"), b"Subtype": Name(b"Type0"), b"BaseFont": Name(b"HorK"), b"Encoding": Name(b"UniKS-UCS2-H"), b"DescendantFonts": [{b"Type": Name(b"Font"), b"Subtype": Name(b"CIDFontType0"), b"BaseFont": Name(b"HorK"), b"CIDSystemInfo": {b"Registry": Str(b"Adobe"), b"Ordering": Str(b"Korea1"), b"Supplement": 1}, b"FontDescriptor": Ref(7, 0), b"DW": 1000}], b"ToUnicode": Ref(11, 0)},
        5: {b"Type": Name(b"Font"), b"Subtype": Name(b"Type0"), b"BaseFont": Name(b"Ryumin-Light"), b"Encoding": Name(b"EUC-H"), b"DescendantFonts": [Ref(6, 0)]},
        6: {b"Type": Name(b"Font"), b"Subtype": Name(b"CIDFontType0"), b"BaseFont": Name(b"Ryumin-Light"), b"CIDSystemInfo": {b"Registry": Str(b"Adobe"), b"Ordering": Str(b"Japan1"), b"Supplement": 2}, b"FontDescriptor": Ref(7, 0), b"DW": 1000},
        7: {b"Type": Name(b"FontDescriptor"), b"FontName": Name(b"Ryumin-Light"), b"Flags": 6, b"FontBBox": [0, -200, 1000, 900], b"ItalicAngle": 0, b"Ascent": 880, b"Descent": -120, b"CapHeight": 700, b"StemV": 80},
        8: {b"Type": Name(b"Font"), b"Subtype": Name(b"Type0"), b"BaseFont": Name(b"Vert"), b"Encoding": Name(b"Identity-V"), b"DescendantFonts": [{b"Type": Name(b"Font"), b"Subtype": Name(b"CIDFontType2"), b"BaseFont": Name(b"Vert"), b"CIDSystemInfo": {b"Registry": Str(b"Adobe"), b"Ordering": Str(b"Identity"), b"Supplement": 0}, b"FontDescriptor": Ref(7, 0), b"DW2": [880, -1000], b"W2": [65, [-900, 500, 880], 70, 72, -800, 450, 900]}]},
    }
    roles = {1: "Catalog", 2: "Pages", 3: "Page", 4: "ContentStream", 5: "Font:Type0", 6: "Font:CID", 7: "FontDescriptor", 8: "Font:Type0V", 9: "Font:Type0V:Japan1", 10: "Font:CID", 11: "ToUnicode", 12: "Font:Type0:Korea1"}
    return Seed("cjk", o, roles)


def s_hybrid():
    s = s_classic()
    s.name = "hybrid-like"
    # same logical document as 'classic', written with an xref stream and everything packable packed,
    # plus a second content stream referenced through an array
    s.objects = dict(s.objects)
    s.objects[3] = dict(s.objects[3])
    s.objects[3][b"Contents"] = [Ref(4, 0), Ref(7, 0)]
    s.objects[7] = content_stream(b"BT /F1 8 Tf 72 100 Td (second stream) Tj ET", flate=True)
    s.roles = dict(s.roles)
    s.roles[7] = "ContentStream"
    s.form = "stream"
    s.pack = [1, 2, 3, 5, 6]
    s.flate_containers = False  # object stream and xref stream stored uncompressed
    return s


def _fixed_rnd():
    state = [7]

    def rnd(n):
        out = bytearray()
        for _ in range(n):
            state[0] = (state[0] * 1103515245 + 12345) & 0x7FFFFFFF
            out.append((state[0] >> 16) & 0xFF)
        return bytes(out)

    return rnd


def _encrypted(name, v, r, keybits, cfm, form):
    from . import crypt

    base = s_classic()
    docid = bytes(range(16))
    h = crypt.Handler(v, r, keybits, cfm, "", "owner", -44, docid, True, _fixed_rnd())
    o = dict(base.objects)
    o[8] = content_stream(b"plain stream with (a string)", extra={b"Note": Str(b"in the stream dictionary")})
    o[3] = dict(o[3])
    o[3][b"Annots"] = [Ref(8, 0)]
    o[9] = h.encrypt_dict()
    roles = dict(base.roles)
    roles[8] = "PlainStream"
    roles[9] = "EncryptDict"
    return Seed(name, o, roles, info=6, form=form, pack=[1, 2, 3, 5, 6] if form == "stream" else None, trailer_extra={b"Encrypt": Ref(9, 0), b"ID": [Str(docid), Str(docid)]}, encrypt=h, encrypt_skip=(9,))


def s_encrypted_rc4():
    return _encrypted("encrypted-rc4", 2, 3, 128, "V2", "table")


def s_encrypted_aes():
    return _encrypted("encrypted-aes", 4, 4, 128, "AESV2", "stream")


def s_encrypted_aes256():
    return _encrypted("encrypted-aes256", 5, 6, 256, "AESV3", "table")


def _jbig2_segment(number, seg_type, data, page=1, refs=()):
    """One JBIG2 segment: number (4), flags (1), referred-to count/retention (1), referred-to segment numbers
    (1, 2 or 4 bytes each, by the size of this segment's number), page association (1), data length (4)."""
    import struct

    size = 1 if number <= 256 else 2 if number <= 65536 else 4
    refbytes = b"".join(r.to_bytes(size, "big") for r in refs)
    return struct.pack(">LBB", number, seg_type, len(refs) << 5) + refbytes + struct.pack(">BL", page, len(data)) + data


JPEG_BLOB = bytes.fromhex("ffd8ffe000104a46494600010100000100010000ffdb004300") + bytes(range(1, 65)) + bytes.fromhex("ffc0000b080002000301011100ffda0008010100003f00d2cf20ffd9")


def s_images():
    """Image XObjects of every kind the exporter distinguishes (read by the image-export entry point)."""

    def im(data, w, h, bpc, cs, extra=None, flate=False):
        d = {b"Type": Name(b"XObject"), b"Subtype": Name(b"Image"), b"Width": w, b"Height": h, b"BitsPerComponent": bpc, b"ColorSpace": cs}
        d.update(extra or {})
        return content_stream(data, flate=flate, extra=d)

    content = b"".join(b"q 40 0 0 30 %d 500 cm /Im%d Do Q\n" % (20 + 45 * i, i) for i in (1, 2, 4, 5, 6, 7, 8, 9, 10, 11))
    content += b"q 20 0 0 20 300 300 cm BI /W 3 /H 2 /BPC 1 /IM true /D [1 0] ID \xa0\x40 EI Q BT /F1 9 Tf 10 10 Td (images) Tj ET"
    # the two kinds whose export needs Pillow come last (without Pillow the export stops at the first of them)
    content += b" q 40 0 0 30 20 400 cm /Im3 Do Q q 40 0 0 30 80 400 cm /Im12 Do Q"
    g4 = bytes.fromhex("c0040040")  # two all-white rows of 8 pixels (V0 V0) followed by EOFB
    globals_ = _jbig2_segment(0, 0, b"\x00\x01\x02\x03")
    page_seg = _jbig2_segment(1, 48, bytes(19)) + _jbig2_segment(2, 38, bytes(22), refs=(0,)) + _jbig2_segment(3, 6, bytes(10), refs=(0, 2)) + _jbig2_segment(4, 49, b"")
    o = {
        1: {b"Type": Name(b"Catalog"), b"Pages": Ref(2, 0)},
        2: {b"Type": Name(b"Pages"), b"Kids": [Ref(3, 0)], b"Count": 1},
        3: {b"Type": Name(b"Page"), b"Parent": Ref(2, 0), b"MediaBox": [0, 0, 612, 792], b"Contents": Ref(4, 0), b"Resources": {b"Font": {b"F1": Ref(5, 0)}, b"XObject": {b"Im%d" % i: Ref(5 + i, 0) for i in range(1, 13)}}},
        4: content_stream(content),
        5: std_font(b"Helvetica"),
        6: im(bytes([0xAA, 0x80, 0x55, 0x40, 0xFF, 0xC0]), 10, 3, 1, Name(b"DeviceGray"), {b"Decode": [1, 0]}),
        7: im(bytes(range(8)), 4, 2, 8, [Name(b"Indexed"), Name(b"DeviceRGB"), 3, Str(bytes(range(12)), True)]),
        8: im(bytes(range(16)), 2, 2, 8, Name(b"DeviceCMYK"), flate=True),
        9: im(bytes(range(16)), 2, 2, 8, Name(b"DeviceCMYK")),
        10: im(JPEG_BLOB, 3, 2, 8, Name(b"DeviceGray"), {b"Filter": Name(b"DCTDecode")}),
        11: im(page_seg, 8, 2, 1, Name(b"DeviceGray"), {b"Filter": Name(b"JBIG2Decode"), b"DecodeParms": {b"JBIG2Globals": Ref(18, 0)}}),
        12: im(g4, 8, 2, 1, Name(b"DeviceGray"), {b"Filter": Name(b"CCITTFaxDecode"), b"DecodeParms": {b"K": -1, b"Columns": 8, b"Rows": 2, b"BlackIs1": False}}),
        13: im(bytes(range(12)), 3, 2, 16, Name(b"DeviceGray")),
        14: im(bytes(range(18)), 3, 2, 8, [Name(b"ICCBased"), Ref(19, 0)], {b"SMask": Ref(15, 0), b"Interpolate": True}),
        15: im(bytes(range(6)), 3, 2, 8, Name(b"DeviceGray")),
        16: im(bytes(range(12)), 2, 2, 8, Name(b"DeviceRGB"), {b"Mask": [0, 1, 0, 1, 0, 1], b"Filter": [Name(b"ASCIIHexDecode"), Name(b"FlateDecode")], b"DecodeParms": [None, {b"Predictor": 1}]}),
        17: im(b"\x00\x00\x00\x0cjP  \r\n\x87\n" + bytes(20), 2, 2, 8, Name(b"DeviceRGB"), {b"Filter": Name(b"JPXDecode")}),
        18: content_stream(globals_),
        19: content_stream(b"\x00" * 32, extra={b"N": 3, b"Alternate": Name(b"DeviceRGB")}),
    }
    # object 16 declares [/AHx /Fl]: encode accordingly
    o[16] = Stream(dict(o[16].dict), encoders.asciihex_encode(zlib.compress(bytes(range(12)))))
    o[16].dict[b"Length"] = len(o[16].raw)
    roles = {1: "Catalog", 2: "Pages", 3: "Page", 4: "ContentStream", 5: "Font:Std14", 6: "Image:1bit", 7: "Image:Indexed", 8: "Image:CMYK+Fl", 9: "Image:CMYK", 10: "Image:DCT", 11: "Image:JBIG2", 12: "Image:CCITT", 13: "Image:16bit", 14: "Image:ICCBased+SMask", 15: "Image:SMask", 16: "Image:RGB+AHx+Fl", 17: "Image:JPX", 18: "JBIG2Globals", 19: "ICCProfile"}
    return Seed("images", o, roles)


def _ttf_with_cmap():
    """A minimal TrueType file: table directory with one table, cmap, holding subtables of format 0, 2 and 4."""
    import struct

    fmt0 = struct.pack(">HHH", 0, 262, 0) + bytes((i if 65 <= i <= 70 else 0) for i in range(256))
    # format 2: all first bytes use subheader 0; one subheader (firstCode 65, 3 entries, delta 0, glyph array right behind)
    fmt2 = struct.pack(">HHH", 2, 6 + 512 + 8 + 6, 0) + struct.pack(">256H", *([0] * 256)) + struct.pack(">HHhH", 65, 3, 0, 2) + struct.pack(">3H", 1, 2, 3)
    # format 4: segments [65..67] through the glyph array, [0xFFFF] by delta
    segs = 2
    fmt4_body = struct.pack(">HHHH", segs * 2, 4, 1, 0) + struct.pack(">2H", 67, 0xFFFF) + b"\x00\x00" + struct.pack(">2H", 65, 0xFFFF) + struct.pack(">2h", 0, 1) + struct.pack(">2H", 4, 0) + struct.pack(">3H", 1, 2, 3)
    fmt4 = struct.pack(">HHH", 4, 6 + len(fmt4_body), 0) + fmt4_body
    subs = [(0, 3, fmt0), (3, 10, fmt2), (3, 1, fmt4), (1, 0, fmt0)]
    head = struct.pack(">HH", 0, len(subs))
    off = 4 + 8 * len(subs)
    body = b""
    for plat, enc, data in subs:
        head += struct.pack(">HHL", plat, enc, off + len(body))
        body += data
    cmap = head + body
    directory = b"\x00\x01\x00\x00" + struct.pack(">HHHH", 1, 16, 0, 0) + struct.pack(">4sLLL", b"cmap", 0, 12 + 16, len(cmap))
    return directory + cmap


TYPE1_HEADER = b"""%!PS-AdobeFont-1.0: Seed 001.000
12 dict begin
/FontInfo 3 dict dup begin /FullName (Seed) readonly def end readonly def
/FontName /Seed def
/Encoding 256 array
0 1 255 {1 index exch /.notdef put} for
dup 65 /B put
dup 66 /Euro put
dup 67 /uni0416 put
dup 68 /g17 put
readonly def
/FontBBox {0 -200 1000 800} readonly def
currentdict end
currentfile eexec
"""


def s_fontfiles():
    """Embedded font programs that pdfminer reads: a Type 1 header (/FontFile, encoding recovered from it) and a
    TrueType cmap table (/FontFile2 of an Identity CID font without /ToUnicode)."""
    ttf = _ttf_with_cmap()
    t1 = TYPE1_HEADER + bytes((i * 73 + 5) % 256 for i in range(64)) + b"\n" + b"0" * 64 + b"\ncleartomark\n"
    content = b"BT /F1 12 Tf 50 700 Td (ABCD) Tj /F2 12 Tf 0 -20 Td <000100020003> Tj /F3 10 Tf 0 -20 Td (AB) Tj ET"
    fdesc = {b"Type": Name(b"FontDescriptor"), b"Flags": 4, b"FontBBox": [0, -200, 1000, 800], b"ItalicAngle": 0, b"Ascent": 800, b"Descent": -200, b"CapHeight": 700, b"StemV": 80}
    o = {
        1: {b"Type": Name(b"Catalog"), b"Pages": Ref(2, 0)},
        2: {b"Type": Name(b"Pages"), b"Kids": [Ref(3, 0)], b"Count": 1},
        3: {b"Type": Name(b"Page"), b"Parent": Ref(2, 0), b"MediaBox": [0, 0, 612, 792], b"Contents": Ref(4, 0), b"Resources": {b"Font": {b"F1": Ref(5, 0), b"F2": Ref(8, 0), b"F3": Ref(12, 0)}}},
        4: content_stream(content),
        5: {b"Type": Name(b"Font"), b"Subtype": Name(b"Type1"), b"BaseFont": Name(b"Seed"), b"FirstChar": 65, b"LastChar": 68, b"Widths": [500, 600, 700, 800], b"FontDescriptor": Ref(6, 0)},
        6: {**fdesc, **{b"FontName": Name(b"Seed"), b"FontFile": Ref(7, 0)}},
        7: content_stream(t1, extra={b"Length1": len(TYPE1_HEADER), b"Length2": 65, b"Length3": 78}),
        8: {b"Type": Name(b"Font"), b"Subtype": Name(b"Type0"), b"BaseFont": Name(b"SeedTT"), b"Encoding": Name(b"Identity-H"), b"DescendantFonts": [Ref(9, 0)]},
        9: {b"Type": Name(b"Font"), b"Subtype": Name(b"CIDFontType2"), b"BaseFont": Name(b"SeedTT"), b"CIDSystemInfo": {b"Registry": Str(b"Adobe"), b"Ordering": Str(b"Identity"), b"Supplement": 0}, b"FontDescriptor": Ref(10, 0), b"DW": 600, b"CIDToGIDMap": Name(b"Identity")},
        10: {**fdesc, **{b"FontName": Name(b"SeedTT"), b"FontFile2": Ref(11, 0)}},
        11: content_stream(ttf, extra={b"Length1": len(ttf)}),
        12: {b"Type": Name(b"Font"), b"Subtype": Name(b"TrueType"), b"BaseFont": Name(b"SeedTT2"), b"FirstChar": 65, b"LastChar": 66, b"Widths": [500, 600], b"FontDescriptor": Ref(13, 0)},
        13: {**fdesc, **{b"FontName": Name(b"SeedTT2"), b"FontFile2": Ref(11, 0)}},
    }
    roles = {1: "Catalog", 2: "Pages", 3: "Page", 4: "ContentStream", 5: "Font:Type1+FontFile", 6: "FontDescriptor", 7: "FontFile:Type1", 8: "Font:Type0", 9: "Font:CID+FontFile2", 10: "FontDescriptor", 11: "FontFile2:TrueType", 12: "Font:TrueType+FontFile2", 13: "FontDescriptor"}
    return Seed("fontfiles", o, roles)


def all_seeds():
    return [s_classic(), s_xrefstream(), s_fonts(), s_forms_images(), s_filters(), s_labels_outlines(), s_cjk(), s_hybrid(), s_encrypted_rc4(), s_encrypted_aes(), s_encrypted_aes256(), s_images(), s_fontfiles()]
