"""Small document builders on top of the SimWriter, shared by the page-level engines."""
import zlib

from .pdfwriter import FileWriter, Name, Ref, Stream, object_stream

STD14 = [b"Helvetica", b"Courier", b"Times-Roman", b"Helvetica-Bold", b"Courier-Bold", b"Times-Bold", b"Helvetica-Oblique", b"Courier-Oblique", b"Times-Italic"]


def std_font(base):
    return {b"Type": Name(b"Font"), b"Subtype": Name(b"Type1"), b"BaseFont": Name(base)}


def content_stream(data, flate=False, extra=None):
    d = dict(extra or {})
    raw = data
    if flate:
        raw = zlib.compress(data)
        d[b"Filter"] = Name(b"FlateDecode")
    d[b"Length"] = len(raw)
    return Stream(d, raw)


def build_pdf(objects, root, info=None, form="table", tape=None, pack=None, trailer_extra=None, eol=b"\n", order=None, flate_containers=True, encrypt=None, gens=None, encrypt_skip=(), container_hook=None, narrow_w3=False):
    """Serialise {id: value} into a single-revision PDF.

    form: 'table' | 'stream' (xref stream; ``pack``: ids to store in one object stream).
    encrypt: a sim.crypt.Handler - every directly stored object (and the object stream as a whole) is encrypted,
    members of the object stream and the cross-reference stream are not.  gens: {id: generation} (direct objects)."""
    fw = FileWriter(eol=eol)
    ids = list(order) if order else sorted(objects)
    gens = gens or {}
    trailer = {b"Size": max(objects) + 1, b"Root": Ref(root, 0)}
    if info is not None:
        trailer[b"Info"] = Ref(info, gens.get(info, 0))
    if trailer_extra:
        trailer.update(trailer_extra)

    def enc(i, g, v):
        return encrypt.encrypt_value(i, g, v) if encrypt is not None and i not in encrypt_skip else v

    if form == "table":
        for i in ids:
            fw.add_object(i, enc(i, gens.get(i, 0), objects[i]), gen=gens.get(i, 0))
        ent = {i: fw.offsets[i] for i in objects}
        ent[0] = (None, 65535)
        if container_hook is not None:
            import copy

            trailer = copy.deepcopy(trailer)
            container_hook("trailer", trailer)
        fw.xref_table(ent, trailer)
    else:
        pack = [i for i in (pack or []) if not isinstance(objects[i], Stream) and not gens.get(i)]
        entries = {}
        for i in ids:
            if i in pack:
                continue
            off = fw.add_object(i, enc(i, gens.get(i, 0), objects[i]), gen=gens.get(i, 0))
            entries[i] = ("n", off, gens.get(i, 0))
        nxt = max(objects) + 1
        if pack:
            d, payload = object_stream([(i, objects[i]) for i in pack])
            raw = payload
            if flate_containers:
                raw = zlib.compress(payload)
                d[b"Filter"] = Name(b"FlateDecode")
            d[b"Length"] = len(raw)
            if container_hook is not None:
                import copy

                d = copy.deepcopy(d)
                container_hook("objstm", d)
            off = fw.add_object(nxt, enc(nxt, 0, Stream(d, raw)))
            entries[nxt] = ("n", off, 0)
            for k, i in enumerate(pack):
                entries[i] = ("c", nxt, k)
            nxt += 1
        entries[0] = ("f", 0, 65535)
        w3 = 2
        if narrow_w3 and all(e[2] == 0 for i, e in entries.items() if i):
            # third field of width 0: generation 0 / index 0 for every entry (object 0 is then left out of /Index)
            del entries[0]
            w3 = 0
        trailer[b"Size"] = nxt + 1
        big = max([fw.pos() + 64, nxt] + [e[1] for e in entries.values()])
        fw.xref_stream(nxt, entries, trailer, widths=(1, max(3, (big.bit_length() + 7) // 8), w3), flt=flate_containers, dict_hook=container_hook)
    return fw


def fmt_num(x):
    """Decimal text of a number without exponent (ints stay ints)."""
    if isinstance(x, int):
        return b"%d" % x
    s = ("%.8f" % x).rstrip("0")
    if s.endswith("."):
        s = s[:-1]
    if s in ("-0", ""):
        s = "0"
    return s.encode()
