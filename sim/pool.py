"""Pools of documents built to collide (C12): same object numbers, same resource names, same BaseFont with
different Differences, different fonts under one standard-14 name, equal ToUnicode streams at different ids,
predefined CJK CMaps, inline images, forms, multi-page documents whose pages share or replace fonts."""
import os
from fractions import Fraction as F

from . import docs, gfx
from .gfx import Op
from .pdfwriter import Name, RawToken, Ref, Str, Stream
from .seeds import TOUNICODE, TOUNICODE16

GLYPHS_A = [b"Alpha", b"Beta", b"Gamma", b"uni0042", b"c_a_t", b"Euro"]
GLYPHS_B = [b"Omega", b"uni0416", b"zero", b"A", b"fi", b"u1F600"]


def font_variants():
    """name -> (font dictionary factory(alloc) -> dict, bytes per code)"""

    def std(base):
        return lambda alloc, shared: docs.std_font(base)

    def std_own_descriptor(base):
        # a standard-14 font that brings a font descriptor of its own (with the optional keys the built-in metrics lack)
        def f(alloc, shared):
            d = docs.std_font(base)
            d[b"FontDescriptor"] = {b"Type": Name(b"FontDescriptor"), b"FontName": Name(base), b"Flags": 32, b"FontBBox": [-166, -225, 1000, 931], b"ItalicAngle": 0, b"Ascent": 718, b"Descent": -207, b"CapHeight": 718, b"StemV": 88, b"MissingWidth": 777, b"Leading": 99}
            return d

        return f

    def diffs(glyphs, widths_base):
        def f(alloc, shared):
            fd = alloc({b"Type": Name(b"FontDescriptor"), b"FontName": Name(b"Shared"), b"Flags": 32, b"FontBBox": [0, -200, 1000, 900], b"ItalicAngle": 0, b"Ascent": 800, b"Descent": -200, b"CapHeight": 700, b"StemV": 80, b"MissingWidth": 300})
            return {b"Type": Name(b"Font"), b"Subtype": Name(b"Type1"), b"BaseFont": Name(b"Shared"), b"FirstChar": 65, b"LastChar": 70, b"Widths": [widths_base + 25 * i for i in range(6)], b"FontDescriptor": fd, b"Encoding": {b"Type": Name(b"Encoding"), b"BaseEncoding": Name(b"WinAnsiEncoding"), b"Differences": [65] + [Name(g) for g in glyphs]}}

        return f

    def std_named_custom(alloc, shared):
        # a font that calls itself Helvetica but brings its own encoding differences
        return {b"Type": Name(b"Font"), b"Subtype": Name(b"Type1"), b"BaseFont": Name(b"Helvetica"), b"Encoding": {b"Type": Name(b"Encoding"), b"Differences": [65, Name(b"Z"), Name(b"Y"), Name(b"X")]}}

    def tounicode_tt(alloc, shared):
        tu = alloc(docs.content_stream(TOUNICODE, flate=True))
        fd = alloc({b"Type": Name(b"FontDescriptor"), b"FontName": Name(b"Arial"), b"Flags": 32, b"FontBBox": [0, -210, 1000, 900], b"ItalicAngle": 0, b"Ascent": 905, b"Descent": -212, b"CapHeight": 716, b"StemV": 80})
        return {b"Type": Name(b"Font"), b"Subtype": Name(b"TrueType"), b"BaseFont": Name(b"Arial"), b"FirstChar": 65, b"LastChar": 70, b"Widths": [600, 610, 620, 630, 640, 650], b"FontDescriptor": fd, b"ToUnicode": tu, b"Encoding": Name(b"MacRomanEncoding")}

    def identity_h(alloc, shared):
        tu = alloc(docs.content_stream(TOUNICODE16))
        fd = alloc({b"Type": Name(b"FontDescriptor"), b"FontName": Name(b"Composite"), b"Flags": 4, b"FontBBox": [0, -200, 1000, 800], b"ItalicAngle": 0, b"Ascent": 800, b"Descent": -200, b"CapHeight": 700, b"StemV": 80})
        d = alloc({b"Type": Name(b"Font"), b"Subtype": Name(b"CIDFontType2"), b"BaseFont": Name(b"Composite"), b"CIDSystemInfo": {b"Registry": Str(b"Adobe"), b"Ordering": Str(b"Identity"), b"Supplement": 0}, b"FontDescriptor": fd, b"DW": 750, b"W": [65, [500, 600], 70, 72, 800]})
        return {b"Type": Name(b"Font"), b"Subtype": Name(b"Type0"), b"BaseFont": Name(b"Composite"), b"Encoding": Name(b"Identity-H"), b"DescendantFonts": [d], b"ToUnicode": tu}

    def cjk(cmap, ordering):
        def f(alloc, shared):
            fd = alloc({b"Type": Name(b"FontDescriptor"), b"FontName": Name(b"Ryumin-Light"), b"Flags": 6, b"FontBBox": [0, -200, 1000, 900], b"ItalicAngle": 0, b"Ascent": 880, b"Descent": -120, b"CapHeight": 700, b"StemV": 80})
            d = alloc({b"Type": Name(b"Font"), b"Subtype": Name(b"CIDFontType0"), b"BaseFont": Name(b"Ryumin-Light"), b"CIDSystemInfo": {b"Registry": Str(b"Adobe"), b"Ordering": Str(ordering), b"Supplement": 2}, b"FontDescriptor": fd, b"DW": 1000})
            return {b"Type": Name(b"Font"), b"Subtype": Name(b"Type0"), b"BaseFont": Name(b"Ryumin-Light"), b"Encoding": Name(cmap), b"DescendantFonts": [d]}

        return f

    def cjk_stream(cmap, ordering, wmode):
        # /Encoding as an embedded CMap stream that carries the name of a predefined CMap but its own /WMode:
        # whatever the library makes of it, the predefined CMap other documents use by name must stay as it is
        def f(alloc, shared):
            base = cjk(cmap, ordering)(alloc, shared)
            body = b"/CIDInit /ProcSet findresource begin 12 dict begin begincmap /CMapName /" + cmap + b" def /WMode %d def 1 begincodespacerange <00> <FF> endcodespacerange endcmap end end" % wmode
            base[b"Encoding"] = alloc(docs.content_stream(body, extra={b"Type": Name(b"CMap"), b"CMapName": Name(cmap), b"WMode": wmode, b"CIDSystemInfo": {b"Registry": Str(b"Adobe"), b"Ordering": Str(ordering), b"Supplement": 2}}))
            return base

        return f

    def ttf_format2(keys, headers):
        """A TrueType program whose only table is a cmap with one format 2 subtable.
        keys: {first byte: subheader index}; headers: [(firstCode, [glyph ids...])] per subheader."""
        import struct

        shk = [0] * 256
        for byte, idx in keys.items():
            shk[byte] = idx * 8
        glyphs = b""
        hdr = b""
        nh = len(headers)
        for i, (first, gids) in enumerate(headers):
            # idRangeOffset counts from its own position to the first glyph id of this subheader
            off = (nh - i - 1) * 8 + 2 + len(glyphs)
            hdr += struct.pack(">HHhH", first, len(gids), 0, off)
            glyphs += struct.pack(">%dH" % len(gids), *gids)
        body = struct.pack(">256H", *shk) + hdr + glyphs
        sub = struct.pack(">HHH", 2, 6 + len(body), 0) + body
        cmap = struct.pack(">HH", 0, 1) + struct.pack(">HHL", 0, 3, 12) + sub
        return b"\x00\x01\x00\x00" + struct.pack(">HHHH", 1, 16, 0, 0) + struct.pack(">4sLLL", b"cmap", 0, 28, len(cmap)) + cmap

    def cid_ttf(keys, headers):
        # Identity CID font without /ToUnicode: the text comes from the embedded program's cmap table
        def f(alloc, shared):
            prog = ttf_format2(keys, headers)
            ff = alloc(docs.content_stream(prog, extra={b"Length1": len(prog)}))
            fd = alloc({b"Type": Name(b"FontDescriptor"), b"FontName": Name(b"EmbTT"), b"Flags": 4, b"FontBBox": [0, -200, 1000, 800], b"ItalicAngle": 0, b"Ascent": 800, b"Descent": -200, b"CapHeight": 700, b"StemV": 80, b"FontFile2": ff})
            d = alloc({b"Type": Name(b"Font"), b"Subtype": Name(b"CIDFontType2"), b"BaseFont": Name(b"EmbTT"), b"CIDSystemInfo": {b"Registry": Str(b"Adobe"), b"Ordering": Str(b"Identity"), b"Supplement": 0}, b"FontDescriptor": fd, b"DW": 700, b"CIDToGIDMap": Name(b"Identity")})
            return {b"Type": Name(b"Font"), b"Subtype": Name(b"Type0"), b"BaseFont": Name(b"EmbTT"), b"Encoding": Name(b"Identity-H"), b"DescendantFonts": [d]}

        return f

    def type1_fontfile(glyphs):
        # a Type 1 font without /Encoding: the encoding is read from the embedded program's header.  Both variants have
        # the same /BaseFont and headers of the same length - only the glyph names differ
        def f(alloc, shared):
            head = b"%!PS-AdobeFont-1.0: Emb 001.000\n12 dict begin\n/FontName /Emb def\n/Encoding 256 array\n0 1 255 {1 index exch /.notdef put} for\n"
            head += b"".join(b"dup %d /%s put\n" % (65 + i, g) for i, g in enumerate(glyphs)) + b"readonly def\ncurrentdict end\ncurrentfile eexec\n"
            prog = head + bytes(range(64)) + b"\n" + b"0" * 64 + b"\ncleartomark\n"
            ff = alloc(docs.content_stream(prog, extra={b"Length1": len(head), b"Length2": 65, b"Length3": 78}))
            fd = alloc({b"Type": Name(b"FontDescriptor"), b"FontName": Name(b"Emb"), b"Flags": 4, b"FontBBox": [0, -200, 1000, 800], b"ItalicAngle": 0, b"Ascent": 800, b"Descent": -200, b"CapHeight": 700, b"StemV": 80, b"FontFile": ff})
            return {b"Type": Name(b"Font"), b"Subtype": Name(b"Type1"), b"BaseFont": Name(b"Emb"), b"FirstChar": 65, b"LastChar": 70, b"Widths": [500, 520, 540, 560, 580, 600], b"FontDescriptor": fd}

        return f

    def unknown_base(glyphs):
        # a legal base encoding the library has no table for, plus Differences
        def f(alloc, shared):
            return {b"Type": Name(b"Font"), b"Subtype": Name(b"Type1"), b"BaseFont": Name(b"Expert"), b"FirstChar": 65, b"LastChar": 70, b"Widths": [500] * 6, b"Encoding": {b"Type": Name(b"Encoding"), b"BaseEncoding": Name(b"MacExpertEncoding"), b"Differences": [65] + [Name(g) for g in glyphs]}}

        return f

    def no_encoding(alloc, shared):
        # neither /Encoding nor a standard-14 name: falls back to the shared standard table
        return {b"Type": Name(b"Font"), b"Subtype": Name(b"Type1"), b"BaseFont": Name(b"NoEncoding"), b"FirstChar": 65, b"LastChar": 70, b"Widths": [520] * 6}

    def type3_indirect_bbox(broken):
        # a Type 3 font whose /FontBBox is an indirect array with an indirect element; in the 'broken' twin that element
        # is an object that cannot be parsed (the extraction of such a document ends with an exception - and leaves
        # nothing behind for the documents read after it)
        def f(alloc, shared):
            inner = alloc(RawToken(b"<< /Broken >>") if broken else 1000)
            bbox = alloc([0, -200, inner, 800])
            return {b"Type": Name(b"Font"), b"Subtype": Name(b"Type3"), b"FontBBox": bbox, b"FontMatrix": [F(1, 1000), 0, 0, F(1, 1000), 0, 0], b"CharProcs": {}, b"Encoding": {b"Type": Name(b"Encoding"), b"Differences": [65] + [Name(g) for g in (b"A", b"B", b"C", b"D", b"E", b"F")]}, b"FirstChar": 65, b"LastChar": 70, b"Widths": [600, 650, 700, 750, 800, 850]}

        return f

    def indirect_width(broken):
        def f(alloc, shared):
            inner = alloc(RawToken(b"<< /Broken >>") if broken else 640)
            fd = alloc({b"Type": Name(b"FontDescriptor"), b"FontName": Name(b"IndW"), b"Flags": 32, b"FontBBox": [0, -200, 1000, 900], b"ItalicAngle": 0, b"Ascent": 800, b"Descent": -200, b"CapHeight": 700, b"StemV": 80, b"MissingWidth": 300})
            return {b"Type": Name(b"Font"), b"Subtype": Name(b"Type1"), b"BaseFont": Name(b"IndW"), b"FirstChar": 65, b"LastChar": 70, b"Widths": [600, inner, 620, inner, 640, 650], b"FontDescriptor": fd, b"Encoding": Name(b"WinAnsiEncoding")}

        return f

    def shared_descendant(which):
        # two Type0 fonts of one document that share their descendant CIDFont object but differ in /ToUnicode
        def f(alloc, shared):
            if "desc" not in shared:
                fd = alloc({b"Type": Name(b"FontDescriptor"), b"FontName": Name(b"SharedCID"), b"Flags": 4, b"FontBBox": [0, -200, 1000, 800], b"ItalicAngle": 0, b"Ascent": 800, b"Descent": -200, b"CapHeight": 700, b"StemV": 80})
                shared["desc"] = alloc({b"Type": Name(b"Font"), b"Subtype": Name(b"CIDFontType2"), b"BaseFont": Name(b"SharedCID"), b"CIDSystemInfo": {b"Registry": Str(b"Adobe"), b"Ordering": Str(b"Identity"), b"Supplement": 0}, b"FontDescriptor": fd, b"DW": 600})
            d = {b"Type": Name(b"Font"), b"Subtype": Name(b"Type0"), b"BaseFont": Name(b"SharedCID"), b"Encoding": Name(b"Identity-H"), b"DescendantFonts": [shared["desc"]]}
            if which == "C":
                return d  # the third parent has no /ToUnicode at all: nothing of its siblings' maps belongs to it
            tu = TOUNICODE16 if which == "A" else TOUNICODE16.replace(b"<0058>", b"<005A>").replace(b"<00590059>", b"<0051>")
            d[b"ToUnicode"] = alloc(docs.content_stream(tu))
            return d

        return f

    return {
        "unknown-base-diffs-A": (unknown_base(GLYPHS_A), 1),
        "unknown-base-diffs-B": (unknown_base(GLYPHS_B), 1),
        "no-encoding": (no_encoding, 1),
        "type0-shared-descendant-A": (shared_descendant("A"), 2),
        "type0-shared-descendant-B": (shared_descendant("B"), 2),
        "type0-shared-descendant-C": (shared_descendant("C"), 2),
        "helvetica": (std(b"Helvetica"), 1),
        "helvetica-own-descriptor": (std_own_descriptor(b"Helvetica"), 1),
        "courier": (std(b"Courier"), 1),
        "times": (std(b"Times-Roman"), 1),
        "shared-diffs-A": (diffs(GLYPHS_A, 400), 1),
        "shared-diffs-B": (diffs(GLYPHS_B, 700), 1),
        "helvetica-custom-encoding": (std_named_custom, 1),
        "truetype-tounicode": (tounicode_tt, 1),
        "identity-h": (identity_h, 2),
        "cjk-euc-h": (cjk(b"EUC-H", b"Japan1"), "euc"),
        "cjk-rksj-h": (cjk(b"90ms-RKSJ-H", b"Japan1"), "sjis"),
        "cjk-unijis-v": (cjk(b"UniJIS-UCS2-V", b"Japan1"), 2),
        "type1-fontfile-A": (type1_fontfile([b"alpha", b"gamma", b"theta", b"sigma", b"kappa", b"omega"]), 1),
        "type1-fontfile-B": (type1_fontfile([b"omega", b"delta", b"Theta", b"Sigma", b"lambda"[:5], b"alpha"]), 1),
        "cid-truetype-cmap2-A": (cid_ttf({0x41: 1}, [(0x20, [9, 8]), (0x42, [1, 2, 3, 4])]), 2),
        "cid-truetype-cmap2-B": (cid_ttf({0x43: 2}, [(0x20, [9, 8]), (0x42, [1, 2, 3, 4]), (0x44, [0x41, 0x42, 0x43, 0x44])]), 2),
        "cjk-rksj-h-as-stream-wmode1": (cjk_stream(b"90ms-RKSJ-H", b"Japan1", 1), "sjis"),
        "cjk-unijis-v-as-stream-wmode0": (cjk_stream(b"UniJIS-UCS2-V", b"Japan1", 0), 2),
        "type3-indirect-bbox": (type3_indirect_bbox(False), 1),
        "type3-indirect-bbox-broken": (type3_indirect_bbox(True), 1),
        "indirect-width": (indirect_width(False), 1),
        "indirect-width-broken": (indirect_width(True), 1),
    }


VARIANTS = font_variants()


def text_for(t, bpc):
    n = t.rint(2, 8, "txt.len")
    if bpc == 1:
        # (\x01: a code for which neither the usual encodings nor the built-in metrics have anything)
        return bytes(t.pick(b"ABCDEF AB\x01", "txt.ch") for _ in range(n))
    if bpc == 2:
        return b"".join(t.pick([0x41, 0x42, 0x43, 0x44, 0x45, 0x3042, 0x30A2, 0x4E00, 1, 2, 3, 4], "txt.cid").to_bytes(2, "big") for _ in range(n))
    if bpc == "euc":
        s = b"".join(t.pick([b"\xa4\xa2", b"\xa5\xa2", b"\xb0\xa1", b"A", b"\x8e\xb1"], "txt.euc") for _ in range(n))
        return s + (b"\xa4" if t.coin(15, 100, "txt.cutlead") else b"")  # sometimes the string ends in a lone lead byte
    s = b"".join(t.pick([b"\x82\xa0", b"\x83\x41", b"\x88\x9f", b"A", b"\xb1"], "txt.sjis") for _ in range(n))
    return s + (b"\x82" if t.coin(15, 100, "txt.cutlead") else b"")


# variants that collide with one another (same names, same shared objects, same process-wide tables): a pool draws most
# of its fonts from one or two of these families, so that the collisions really happen within a document and a history
FAMILIES = [
    ["type0-shared-descendant-A", "type0-shared-descendant-B", "type0-shared-descendant-C"],
    ["shared-diffs-A", "shared-diffs-B", "helvetica-custom-encoding", "helvetica"],
    ["unknown-base-diffs-A", "unknown-base-diffs-B", "no-encoding", "times"],
    ["type1-fontfile-A", "type1-fontfile-B", "no-encoding"],
    ["cid-truetype-cmap2-A", "cid-truetype-cmap2-B", "identity-h"],
    ["cjk-rksj-h", "cjk-rksj-h-as-stream-wmode1", "cjk-euc-h"],
    ["cjk-unijis-v", "cjk-unijis-v-as-stream-wmode0", "identity-h"],
    ["helvetica", "courier", "times", "truetype-tounicode", "helvetica-own-descriptor"],
    ["type3-indirect-bbox", "type3-indirect-bbox-broken", "indirect-width", "indirect-width-broken", "helvetica"],
]
# a twin document has the structure (object numbers, resource names, texts) of its sibling and the OTHER member of each
# pair in place of a font
SWAP = {}
for _a, _b in [("type0-shared-descendant-A", "type0-shared-descendant-B"), ("shared-diffs-A", "shared-diffs-B"), ("unknown-base-diffs-A", "unknown-base-diffs-B"), ("type1-fontfile-A", "type1-fontfile-B"), ("cid-truetype-cmap2-A", "cid-truetype-cmap2-B"), ("type3-indirect-bbox", "type3-indirect-bbox-broken"), ("indirect-width", "indirect-width-broken"), ("helvetica", "helvetica-own-descriptor")]:
    SWAP[_a], SWAP[_b] = _b, _a
TWIN = [False]


def pick_variant(t, names, theme, label):
    if theme and t.coin(70, 100, label + ".themed"):
        v = t.pick(theme, label + ".fam")
    else:
        v = t.pick(names, label)
    return SWAP.get(v, v) if TWIN[0] else v


def text_document(t, ctx, label, theme=None):
    """Multi-page document whose pages share or replace fonts under the same resource names."""
    objects = {}
    nxt = [3]

    def alloc(v):
        nxt[0] += 1
        objects[nxt[0]] = v
        return Ref(nxt[0], 0)

    names = sorted(VARIANTS)
    npages = t.rint(1, 4, "doc.pages")
    fontobjs = {}
    shared = {}

    def font_ref(vname):
        if vname not in fontobjs:
            d = VARIANTS[vname][0](alloc, shared)
            fontobjs[vname] = alloc(d)
        return fontobjs[vname]

    kids = []
    features = set()
    direct_fonts = t.coin(25, 100, "doc.directfonts")
    cur = {b"F1": pick_variant(t, names, theme, "doc.f1"), b"F2": pick_variant(t, names, theme, "doc.f2")}
    shared_form = None
    if t.coin(25, 100, "doc.sharedform"):
        # one form XObject without /Resources of its own, invoked by every page: it shows its text in whatever the
        # invoking page binds /F1 to (one cached object, several callers, several sets of resources)
        shared_form = alloc(docs.content_stream(b"BT /F1 10 Tf 20 20 Td (ABAB) Tj ET", extra={b"Type": Name(b"XObject"), b"Subtype": Name(b"Form"), b"BBox": [0, 0, 200, 100], b"Matrix": [1, 0, 0, 1, 100, 100]}))
        features.add("resource-less form shared by pages")
    for p in range(npages):
        if p and t.coin(45, 100, "doc.replace"):
            cur[t.pick([b"F1", b"F2"], "doc.which")] = pick_variant(t, names, theme, "doc.fnew")
            features.add("page replaces font under same resource name")
        elif p:
            features.add("pages share font object")
        features.update(cur.values())
        prog = []
        y = 700
        for _ in range(t.rint(1, 5, "page.lines")):
            rn = t.pick([b"F1", b"F2"], "page.font")
            bpc = VARIANTS[cur[rn]][1]
            prog += [Op("BT"), Op("Tf", [Name(rn), F(t.pick([9, 10, 12, 14], "page.size"))]), Op("Td", [F(t.pick([50, 50, 72, 300], "page.x")), F(y)]), Op("Tj", [text_for(t, bpc)]), Op("ET")]
            y -= t.pick([14, 14, 20, 40, 0], "page.dy")
        if t.coin(25, 100, "page.shape"):
            prog += [Op("re", [F(40), F(40), F(100), F(30)]), Op("S")]
        if t.coin(15, 100, "page.dangling"):
            # a path that is built but never painted when the page ends (e.g. a clip without n)
            prog += [Op("re", [F(20), F(20), F(30), F(30)]), Op("W")]
            features.add("unpainted path at page end")
        if shared_form is not None:
            prog.insert(t.draw(len(prog) // 5 + 1, "page.formpos") * 5, Op("Do", [Name(b"FmR")]))
        data, _ = gfx.serialise(prog, None)
        c = alloc(docs.content_stream(data, flate=t.coin(50, 100, "page.flate")))
        res = {b"Font": {k: font_ref(v) for k, v in cur.items()}}
        if shared_form is not None:
            res[b"XObject"] = {b"FmR": shared_form}
        if direct_fonts:
            # font dictionaries written directly in the resources (no object number of their own)
            for k in cur:
                res[b"Font"][k] = VARIANTS[cur[k]][0](alloc, shared)
            features.add("direct font dictionary")
        if p and t.coin(8, 100, "page.nores"):
            # a page without any /Resources (own or inherited) that still uses /F1: whatever the library falls back to, it
            # is a function of this page alone, not of the page interpreted before it
            res = None
            features.add("page without resources")
        elif p and t.coin(15, 100, "page.dropfont"):
            # the page uses a font name its resources do not define (falls back to the default font)
            del res[b"Font"][t.pick([b"F1", b"F2"], "page.drop")]
            features.add("page uses undefined font name")
        pd = {b"Type": Name(b"Page"), b"Parent": Ref(2, 0), b"MediaBox": [0, 0, 612, 792], b"Contents": c}
        if res is not None:
            pd[b"Resources"] = res
        page = alloc(pd)
        kids.append(page)
    objects[1] = {b"Type": Name(b"Catalog"), b"Pages": Ref(2, 0)}
    if t.coin(3, 100, "doc.manynames"):
        # tens of thousands of distinct names: process-wide tables that grow with what was read (the name intern
        # table) must keep serving the documents read afterwards
        base = t.draw(1000, "doc.manynames.base")
        objects[1][b"PieceInfo"] = {b"k%dx%d" % (base, i): 0 for i in range(40000)}
        features.add("40000 distinct names")
    objects[2] = {b"Type": Name(b"Pages"), b"Kids": kids, b"Count": len(kids)}
    form = t.pick(["table", "stream"], "doc.form")
    pack = [i for i in objects if t.coin(60, 100, "doc.pack")] if form == "stream" else None
    handler = None
    extra = None
    if t.coin(15, 100, "doc.encrypt"):
        # an encrypted member of the pool (empty user password, so every API form opens it)
        from . import crypt

        v, r, bits, cfm = t.pick([(2, 3, 128, "V2"), (4, 4, 128, "AESV2"), (5, 6, 256, "AESV3"), (1, 2, 40, "V2")], "doc.enc.kind")
        docid = bytes(t.draw(256, "doc.enc.id") for _ in range(16))
        handler = crypt.Handler(v, r, bits, cfm, "", "owner", -44, docid, True, lambda n: bytes(t.draw(256, "doc.enc.rnd") for _ in range(n)))
        extra = {b"Encrypt": handler.encrypt_dict(), b"ID": [Str(docid), Str(docid)]}
        features.add("encrypted")
    data = docs.build_pdf(objects, 1, form=form, pack=pack, encrypt=handler, trailer_extra=extra).getvalue()
    return {"name": label, "data": data, "pages": npages, "features": sorted(features)}


def gfx_document(t, ctx, label):
    """Forms, inline images and paths (inline-image names and figure nesting reach the XML output)."""
    objects = {}
    nxt = [3]

    def alloc(v):
        nxt[0] += 1
        objects[nxt[0]] = v
        return Ref(nxt[0], 0)

    font = alloc(docs.std_font(t.pick([b"Helvetica", b"Courier"], "g.font")))
    formc = b"0.5 g BT /F1 8 Tf 5 5 Td (form) Tj ET 0 0 20 20 re f"
    form = alloc(docs.content_stream(formc, extra={b"Type": Name(b"XObject"), b"Subtype": Name(b"Form"), b"BBox": [0, 0, 100, 100], b"Matrix": [1, 0, 0, 1, t.rint(0, 300, "g.fx"), t.rint(0, 300, "g.fy")], b"Resources": {b"Font": {b"F1": font}}}))
    npages = t.rint(1, 3, "g.pages")
    kids = []
    for p in range(npages):
        parts = []
        for _ in range(t.rint(1, 4, "g.items")):
            k = t.draw(4, "g.kind")
            if k == 0:
                px = bytes(t.draw(256, "g.px") for _ in range(4))
                px = px.replace(b"EI", b"E_")
                parts.append(b"q 20 0 0 20 %d %d cm BI /W 2 /H 2 /BPC 8 /CS /G ID " % (t.rint(0, 400, "g.ix"), t.rint(0, 400, "g.iy")) + px + b" EI Q")
            elif k == 1:
                parts.append(b"/Fm1 Do")
            elif k == 2:
                parts.append(b"BT /F1 11 Tf %d %d Td (text %d) Tj ET" % (t.rint(20, 400, "g.tx"), t.rint(20, 700, "g.ty"), t.draw(10, "g.n")))
            else:
                parts.append(b"%d %d m %d %d l S" % (t.rint(0, 500, "g.a"), t.rint(0, 500, "g.b"), t.rint(0, 500, "g.c"), t.rint(0, 500, "g.d")))
        c = alloc(docs.content_stream(b"\n".join(parts)))
        kids.append(alloc({b"Type": Name(b"Page"), b"Parent": Ref(2, 0), b"MediaBox": [0, 0, 612, 792], b"Contents": c, b"Resources": {b"Font": {b"F1": font}, b"XObject": {b"Fm1": form}}}))
    objects[1] = {b"Type": Name(b"Catalog"), b"Pages": Ref(2, 0)}
    objects[2] = {b"Type": Name(b"Pages"), b"Kids": kids, b"Count": len(kids)}
    return {"name": label, "data": docs.build_pdf(objects, 1).getvalue(), "pages": npages, "features": ["forms", "inline images", "paths"]}


SAMPLES = ["simple1.pdf", "simple3.pdf", "jo.pdf", "simple2.pdf", "contrib/issue-1062-filters.pdf", "contrib/issue_495_pdfobjref.pdf", "sampleOneByteIdentityEncode.pdf", "simple4.pdf"]


def sample_document(t, ctx, repo, label):
    rel = t.pick(SAMPLES, "sample")
    path = os.path.join(repo, "samples", rel)
    try:
        with open(path, "rb") as f:
            data = f.read()
    except OSError:
        return None
    return {"name": label + ":" + rel, "data": data, "pages": None, "features": ["repository sample " + rel]}


def make_pool(t, ctx, repo):
    n = t.rint(3, 8, "pool.n")
    pool = []
    theme = []
    for _ in range(t.rint(1, 2, "pool.themes")):
        theme += t.pick(FAMILIES, "pool.theme")
    for i in range(n):
        k = t.weighted([6, 2, 2], "pool.kind")
        d = None
        if k == 0:
            start = len(t.rec)
            d = text_document(t, ctx, "text%d" % i, theme)
            if t.coin(30, 100, "pool.twin"):
                # the same structural choices once more (replayed), the fonts swapped for their counterparts
                from .tape import Tape

                TWIN[0] = True
                try:
                    tw = text_document(Tape(replay=t.rec[start:-1]), ctx, "text%d-twin" % i, theme)
                finally:
                    TWIN[0] = False
                tw["features"] = sorted(set(tw["features"]) | {"twin of another document (same numbering, other fonts)"})
                pool.append(tw)
        elif k == 1:
            d = gfx_document(t, ctx, "gfx%d" % i)
        else:
            d = sample_document(t, ctx, repo, "sample%d" % i)
        if d is None:
            d = text_document(t, ctx, "text%d" % i, theme)
        pool.append(d)
    return pool
