"""Content-stream programs, their serialisation, and exact-rational reference machines for the PDF text
model (ISO 32000-1 9.3-9.4) and path painting (8.5) - shared by C05 and C16.  Harness code: no pdfminer import.
"""
from fractions import Fraction as F

from .pdfwriter import Name, Ref, Stream

IDENT = (F(1), F(0), F(0), F(1), F(0), F(0))


# ---------------------------------------------------------------------------- matrices (row-vector convention)
def mult(m1, m0):
    """m1 x m0: apply m1 first, then m0."""
    a1, b1, c1, d1, e1, f1 = m1
    a0, b0, c0, d0, e0, f0 = m0
    return (a0 * a1 + c0 * b1, b0 * a1 + d0 * b1, a0 * c1 + c0 * d1, b0 * c1 + d0 * d1, a0 * e1 + c0 * f1 + e0, b0 * e1 + d0 * f1 + f0)


def apply(m, p):
    a, b, c, d, e, f = m
    return (a * p[0] + c * p[1] + e, b * p[0] + d * p[1] + f)


def translate(m, v):
    """T(v) x m"""
    return mult((F(1), F(0), F(0), F(1), F(v[0]), F(v[1])), m)


# ---------------------------------------------------------------------------- programs
class Op:
    __slots__ = ("name", "args", "tag")

    def __init__(self, name, args=(), tag=None):
        self.name = name
        self.args = list(args)
        self.tag = tag

    def __repr__(self):
        return "%s %s" % (" ".join(show_arg(a) for a in self.args), self.name)


def show_arg(a):
    if isinstance(a, F):
        return fmt_frac(a).decode()
    if isinstance(a, (bytes, bytearray)):
        return "(%s)" % bytes(a).decode("latin-1")
    if isinstance(a, list):
        return "[%s]" % " ".join(show_arg(x) for x in a)
    if isinstance(a, Name):
        return "/" + a.b.decode("latin-1")
    return repr(a)


def fmt_frac(fr):
    fr = F(fr)
    if fr.denominator == 1:
        return b"%d" % fr.numerator
    # dyadic denominators have a finite decimal expansion
    s = "%.12f" % float(fr)
    s = s.rstrip("0")
    assert F(s) == fr, (fr, s)
    return s.encode()


def ser_string(b, tape):
    if tape is not None and tape.coin(25, 100, "cs.hexstr"):
        return b"<" + b.hex().encode() + b">"
    out = bytearray(b"(")
    for c in b:
        if c in (40, 41, 92):
            out += b"\\" + bytes((c,))
        elif c < 32 or c > 126:
            out += b"\\%03o" % c
        else:
            out.append(c)
    out += b")"
    return bytes(out)


def tokens_of(op, tape):
    toks = []

    def arg(a):
        if isinstance(a, F) or isinstance(a, int):
            toks.append(fmt_frac(F(a)))
        elif isinstance(a, Name):
            toks.append(b"/" + a.b)
        elif isinstance(a, (bytes, bytearray)):
            toks.append(ser_string(bytes(a), tape))
        elif isinstance(a, list):
            toks.append(b"[")
            for x in a:
                arg(x)
            toks.append(b"]")
        elif isinstance(a, dict):
            toks.append(b"<<")
            for k, v in a.items():
                toks.append(b"/" + k)
                arg(v)
            toks.append(b">>")
        elif isinstance(a, RawBytes):
            toks.append(a.b)
        else:
            raise TypeError(a)

    for a in op.args:
        arg(a)
    if op.name:
        toks.append(op.name.encode())
    return toks


class RawBytes:
    """Pre-serialised operand bytes (used for inline images)."""

    def __init__(self, b):
        self.b = b


def serialise(prog, tape=None):
    """-> (bytes, split offsets).  Split offsets are positions *after* a white-space byte between tokens."""
    out = bytearray()
    splits = []
    for op in prog:
        for tok in tokens_of(op, tape):
            if tape is not None and tape.coin(4, 100, "cs.comment"):
                # a comment is white space; so are the blanks inside it, where the content may be divided as well
                text = tape.pick([b"% a b c", b"%  BT (x) Tj ET", b"% 0 0 Td /F1 9 Tf", b"%%EOF ", b"% ) ] >>"], "cs.comment.text")
                base = len(out)
                out += text + tape.pick([b"\n", b"\r\n", b"\r"], "cs.comment.eol")
                splits += [base + i + 1 for i, c in enumerate(text) if c == 0x20]
            base = len(out)
            out += tok
            if tape is not None and tok[:1] == b"(":
                # blanks inside a literal string: the bytes of the streams are simply joined, so a division there is harmless
                splits += [base + i + d for i, c in enumerate(tok) if c == 0x20 for d in (0, 1)]
            splits.append(len(out))  # between the token and the white space that follows it
            if tape is None:
                out += b" "
            else:
                k = tape.draw(8, "cs.ws")
                out += (b" ", b" ", b" ", b"\n", b"\r\n", b"  ", b" \n", b"\t")[k]
            splits.append(len(out))  # after the white space
    return bytes(out), splits


def split_stream(data, splits, tape, ctx=None):
    """Cut ``data`` at tape-chosen split offsets (incl. empty pieces) -> list of byte strings."""
    ncuts = tape.draw(7, "split.n")
    cuts = sorted(tape.pick(splits, "split.at") for _ in range(ncuts)) if splits else []
    pieces = []
    last = 0
    for c in cuts:
        pieces.append(data[last:c])
        last = c
    pieces.append(data[last:])
    return pieces


# ---------------------------------------------------------------------------- fonts
class Font:
    """A font of the workload together with what the model needs to know about it."""

    def __init__(self, kind, fontname, widths, first, descent, missing=F(0), hscale=F(1, 1000), vscale=F(1, 1000), bytes_per_code=1, obj=None, extra=None):
        self.kind = kind
        self.fontname = fontname
        self.widths = widths  # code -> glyph-space width (Fraction)
        self.first = first
        self.descent = descent  # glyph space
        self.missing = missing
        self.hscale = hscale
        self.vscale = vscale
        self.bpc = bytes_per_code
        self.obj = obj  # the font dictionary (model value) - may contain Refs into extra
        self.extra = extra or {}

    def w0(self, code):
        return self.widths.get(code, self.missing) * self.hscale

    def d(self):
        return self.descent * self.vscale

    def codes(self, s):
        if self.bpc == 1:
            return list(s)
        return [int.from_bytes(s[i : i + 2], "big") for i in range(0, len(s) - 1, 2)]


def make_font(tape, idx):
    """A tape-chosen font; returns Font.  Widths are multiples of 125 so that w/1000 is dyadic."""
    t = tape
    kind = t.pick(["type1", "type1", "type3", "type0"], "font.kind")
    name = b"VerifFont%d" % idx
    if kind == "type1":
        if t.coin(15, 100, "font.tagged"):
            # a subset of a standard-14 face: the tagged name is not a standard-14 name, the font's own /Widths count
            name = t.pick([b"ABCDEF+Helvetica", b"QWERTY+Times-Roman", b"XYZABC+Courier-Bold", b"Helvetica-Narrowx"], "font.taggedname")
        first = t.pick([32, 65, 0], "font.first")
        last = t.pick([127, 127, 255, 255, first + 9], "font.last")
        n = last + 1 - first
        widths = {first + i: F(125 * t.rint(0, 8, "font.w")) for i in range(n)}  # 0 is a legal width
        descent = F(-25 * t.rint(0, 12, "font.descent"))
        missing = F(125 * t.rint(0, 4, "font.missing"))
        fd = {b"Type": Name(b"FontDescriptor"), b"FontName": Name(name), b"Flags": 32, b"Ascent": 750, b"Descent": int(descent), b"MissingWidth": int(missing), b"FontBBox": [0, int(descent), 1000, 750], b"ItalicAngle": 0, b"CapHeight": 700, b"StemV": 80}
        obj = {b"Type": Name(b"Font"), b"Subtype": Name(t.pick([b"Type1", b"TrueType", b"MMType1"], "font.subtype")), b"BaseFont": Name(name), b"FirstChar": first, b"LastChar": last, b"Widths": [int(widths[first + i]) for i in range(n)], b"FontDescriptor": fd}
        f = Font("type1", name.decode(), widths, first, descent, missing, obj=obj)
        f.last = last
        f.textmap = {}
        if t.coin(15, 100, "font.remapspace"):
            # the space glyph sits at another code and code 32 shows a letter: word spacing still goes by the code (32)
            obj[b"Encoding"] = {b"Type": Name(b"Encoding"), b"Differences": [32, Name(b"A"), 65, Name(b"space")]}
            f.textmap = {32: "A", 65: " "}
        return f
    if kind == "type3":
        k = t.pick([512, 1024, 256], "font.t3scale")
        first = 65
        widths = {first + i: F(64 * t.rint(0, 8, "font.w")) for i in range(26)}
        ll = -64 * t.rint(0, 3, "font.t3descent")
        obj = {b"Type": Name(b"Font"), b"Subtype": Name(b"Type3"), b"FontBBox": [0, ll, 512, 512], b"FontMatrix": [F(1, k), 0, 0, F(1, k), 0, 0], b"CharProcs": {}, b"Encoding": {b"Type": Name(b"Encoding"), b"Differences": [65, Name(b"A")]}, b"FirstChar": first, b"LastChar": first + 25, b"Widths": [int(widths[first + i]) for i in range(26)]}
        fontname = "unknown"
        if t.coin(50, 100, "font.t3desc"):
            obj[b"FontDescriptor"] = {b"Type": Name(b"FontDescriptor"), b"FontName": Name(name), b"Flags": 4, b"FontBBox": [0, ll, 512, 512], b"Ascent": 0, b"Descent": 0}
            fontname = name.decode()
        # pdfminer takes descent/ascent of a Type 3 font from its FontBBox
        return Font("type3", fontname, widths, first, F(ll), F(0), hscale=F(1, k), vscale=F(1, k), obj=obj)
    # type0 / Identity-H
    dw = F(125 * t.rint(2, 8, "font.dw"))
    widths = {}
    warr = []
    c = 30
    for _ in range(t.rint(0, 3, "font.wn")):
        n = t.rint(1, 4, "font.wrun")
        ws = [F(125 * t.rint(0, 8, "font.w")) for _ in range(n)]
        warr += [c, [int(w) for w in ws]]
        for i, w in enumerate(ws):
            widths[c + i] = w
        c += n + t.rint(0, 3, "font.wgap")
    top = False
    if t.coin(25, 100, "font.wtop"):
        # the range form, up to the highest CID there is
        wt = F(125 * t.rint(1, 8, "font.wtopw"))
        lo = t.pick([65535, 65534, 65000], "font.wtoplo")
        warr += [lo, 65535, int(wt)]
        for cid in range(lo, 65536):
            widths[cid] = wt
        top = True
    descent = F(-25 * t.rint(0, 12, "font.descent"))
    fd = {b"Type": Name(b"FontDescriptor"), b"FontName": Name(name), b"Flags": 4, b"Ascent": 800, b"Descent": int(descent), b"FontBBox": [0, int(descent), 1000, 800], b"ItalicAngle": 0, b"CapHeight": 700, b"StemV": 80}
    desc = {b"Type": Name(b"Font"), b"Subtype": Name(b"CIDFontType2"), b"BaseFont": Name(name), b"CIDSystemInfo": {b"Registry": b"Adobe", b"Ordering": b"Identity", b"Supplement": 0}, b"FontDescriptor": fd, b"DW": int(dw), b"W": warr}
    obj = {b"Type": Name(b"Font"), b"Subtype": Name(b"Type0"), b"BaseFont": Name(name), b"Encoding": Name(b"Identity-H"), b"DescendantFonts": [desc]}
    f = Font("type0", name.decode(), widths, 0, descent, dw, bytes_per_code=2, obj=obj)
    f.top = top
    return f


# ---------------------------------------------------------------------------- reference machine
class GState:
    __slots__ = ("ctm", "Tc", "Tw", "Th", "Tl", "font", "Tfs", "Trise", "ncolor", "scolor", "ncs", "scs", "linewidth", "dash")

    def copy(self):
        g = GState()
        for k in self.__slots__:
            setattr(g, k, getattr(self, k))
        return g


def initial_state(ctm):
    g = GState()
    g.ctm = ctm
    g.Tc = g.Tw = g.Tl = g.Trise = F(0)
    g.Th = F(1)
    g.font = None
    g.Tfs = F(0)
    g.ncolor = g.scolor = None  # None = never set (initial colour)
    g.ncs = g.scs = "DeviceGray"
    g.linewidth = None  # None = never set
    g.dash = None
    return g


NCOMP = {"DeviceGray": 1, "DeviceRGB": 3, "DeviceCMYK": 4}


class Machine:
    """Executes a program; collects expected glyphs and shapes in painting order."""

    def __init__(self, fonts, forms=None):
        self.fonts = fonts  # resource name (bytes) -> Font
        self.forms = forms or {}  # resource name (bytes) -> Form
        self.events = []  # ('glyph', {...}) | ('shape', {...}) | ('image', name)

    def run(self, prog, ctm=IDENT, depth=0):
        g = initial_state(ctm)
        stack = []
        tlm = IDENT
        pen = F(0)
        path = []
        for op in prog:
            n, a = op.name, op.args
            if n == "q":
                stack.append(g.copy())
            elif n == "Q":
                if stack:
                    g = stack.pop()
            elif n == "cm":
                g.ctm = mult(tuple(a), g.ctm)
            elif n == "BT":
                tlm = IDENT
                pen = F(0)
            elif n == "ET":
                pass
            elif n == "Tc":
                g.Tc = a[0]
            elif n == "Tw":
                g.Tw = a[0]
            elif n == "Tz":
                g.Th = a[0] / 100
            elif n == "TL":
                g.Tl = a[0]
            elif n == "Ts":
                g.Trise = a[0]
            elif n == "Tf":
                g.font = self.fonts[a[0].b]
                g.Tfs = a[1]
            elif n in ("Td", "TD"):
                if n == "TD":
                    g.Tl = -a[1]
                tlm = translate(tlm, (a[0], a[1]))
                pen = F(0)
            elif n == "Tm":
                tlm = tuple(a)
                pen = F(0)
            elif n == "T*":
                tlm = translate(tlm, (0, -g.Tl))
                pen = F(0)
            elif n in ("Tj", "TJ", "'", '"'):
                if n == '"':
                    g.Tw, g.Tc = a[0], a[1]
                if n in ("'", '"'):
                    tlm = translate(tlm, (0, -g.Tl))
                    pen = F(0)
                seq = a[0] if n == "TJ" else [a[-1]]
                pen = self.show(g, tlm, pen, seq)
            elif n in ("g", "rg", "k"):
                g.ncolor = tuple(a) if len(a) > 1 else a[0]
                g.ncs = {"g": "DeviceGray", "rg": "DeviceRGB", "k": "DeviceCMYK"}[n]
            elif n in ("G", "RG", "K"):
                g.scolor = tuple(a) if len(a) > 1 else a[0]
                g.scs = {"G": "DeviceGray", "RG": "DeviceRGB", "K": "DeviceCMYK"}[n]
            elif n == "cs":
                g.ncs = a[0].b.decode()
            elif n == "CS":
                g.scs = a[0].b.decode()
            elif n in ("sc", "scn"):
                g.ncolor = tuple(a) if len(a) > 1 else a[0]
            elif n in ("SC", "SCN"):
                g.scolor = tuple(a) if len(a) > 1 else a[0]
            elif n == "w":
                g.linewidth = a[0]
            elif n == "d":
                g.dash = (list(a[0]), a[1])
            elif n == "m":
                path.append(("m", a[0], a[1]))
            elif n == "l":
                path.append(("l", a[0], a[1]))
            elif n == "c":
                path.append(("c",) + tuple(a))
            elif n in ("v", "y"):
                path.append((n,) + tuple(a))
            elif n == "h":
                path.append(("h",))
            elif n == "re":
                x, y, w, h = a
                path += [("m", x, y), ("l", x + w, y), ("l", x + w, y + h), ("l", x, y + h), ("h",)]
            elif n in ("S", "s", "f", "f*", "B", "B*", "b", "b*"):
                if n in ("s", "b", "b*"):
                    path.append(("h",))
                stroke = n in ("S", "s", "B", "B*", "b", "b*")
                fill = n in ("f", "f*", "B", "B*", "b", "b*")
                evenodd = n in ("f*", "B*", "b*")
                self.paint(g, path, stroke, fill, evenodd)
                path = []
            elif n == "n":
                path = []
            elif n in ("W", "W*"):
                pass  # clipping: no effect on what is reported
            elif n == "Do":
                form = self.forms.get(a[0].b)
                if form is not None and depth < 6:
                    # a form without /Resources of its own uses those of its caller
                    sub = Machine(form.fonts, form.forms) if form.fonts is not None else Machine(self.fonts, self.forms)
                    sub.events = self.events
                    sub.run(form.prog, ctm=mult(form.matrix, g.ctm), depth=depth + 1)
            elif n == "":
                pass  # operands without operator (fault injection leaves none of these)
            else:
                raise ValueError("reference machine: unknown operator %r" % n)
        return self.events

    def show(self, g, tlm, pen, seq):
        font = g.font
        if font is None:
            return pen  # nothing can be shown without a font
        base = mult(tlm, g.ctm)
        for el in seq:
            if isinstance(el, (F, int)):
                pen -= F(el) / 1000 * g.Tfs * g.Th
                continue
            for code in font.codes(bytes(el)):
                w0 = font.w0(code)
                m = translate(base, (pen, 0))
                adv = w0 * g.Tfs * g.Th
                d = font.d() * g.Tfs
                rect = (F(0), d + g.Trise, adv, d + g.Trise + g.Tfs)
                corners = [apply(m, p) for p in ((rect[0], rect[1]), (rect[2], rect[1]), (rect[2], rect[3]), (rect[0], rect[3]))]
                xs = [c[0] for c in corners]
                ys = [c[1] for c in corners]
                bbox = (min(xs), min(ys), max(xs), max(ys))
                self.events.append(("glyph", {"matrix": m, "adv": adv, "bbox": bbox, "size": bbox[3] - bbox[1], "fontname": font.fontname, "ncolor": g.ncolor, "ncs": g.ncs, "code": code, "kind": font.kind, "text": getattr(font, "textmap", {}).get(code)}))
                pen += adv + g.Tc * g.Th
                if font.bpc == 1 and code == 32:
                    pen += g.Tw * g.Th
        return pen

    def paint(self, g, path, stroke, fill, evenodd):
        if path and path[0][0] != "m":
            return  # a path must begin with m or re; an invalid one paints nothing
        # split into subpaths at every m
        subs = []
        for seg in path:
            if seg[0] == "m":
                subs.append([seg])
            elif subs:
                subs[-1].append(seg)
        for sp in subs:
            if len(sp) < 2:
                # a lone moveto has no segment: it may yield nothing or a one-point shape
                self.events.append(("lone-moveto", {"pt": apply(g.ctm, (sp[0][1], sp[0][2]))}))
                continue
            start = (sp[0][1], sp[0][2])
            pts = [apply(g.ctm, start)]
            kinds = "m"
            for seg in sp[1:]:
                kinds += seg[0]
                if seg[0] == "h":
                    pts.append(apply(g.ctm, start))
                else:
                    pts.append(apply(g.ctm, (seg[-2], seg[-1])))
            orig = []
            for seg in sp:
                ops = seg[1:]
                orig.append((seg[0],) + tuple(apply(g.ctm, (ops[i], ops[i + 1])) for i in range(0, len(ops), 2)))
            self.events.append(("shape", {"kinds": kinds, "pts": pts, "stroke": stroke, "fill": fill, "evenodd": evenodd, "linewidth": g.linewidth, "dash": g.dash, "scolor": g.scolor, "ncolor": g.ncolor, "original_path": orig}))


class Form:
    def __init__(self, matrix, bbox, fonts, prog, forms=None):
        self.matrix = matrix
        self.bbox = bbox
        self.fonts = fonts
        self.prog = prog
        self.forms = forms or {}


def classify(kinds, pts):
    """-> set of acceptable classes for a subpath ('line' | 'rect' | 'curve')."""
    straight = all(k in "lh" for k in kinds[1:])
    if kinds in ("ml", "mlh"):
        return {"line"}
    segs = kinds[1:]
    if straight:
        p = list(pts)
        k = kinds
        # a final l that already returned to the start followed by h: the duplicate point may be dropped
        if k.endswith("lh") and len(k) > 3 and p[-2] == p[0]:
            k = k[:-2] + "h"
            p = p[:-1]
            if k == "mlh":
                # m A l B l A h: with the duplicate dropped this is the one-segment closed path m A l B h
                return {"line", "curve"}
        if k in ("mlllh", "mllll") and p[0] == p[4]:
            (x0, y0), (x1, y1), (x2, y2), (x3, y3) = p[:4]
            square = (x0 == x1 and y1 == y2 and x2 == x3 and y3 == y0) or (y0 == y1 and x1 == x2 and y2 == y3 and x3 == x0)
            if square:
                return {"rect"} if k == "mlllh" else {"rect", "curve"}
    return {"curve"}
