"""Runner, minimiser, replay, evidence (DESIGN 3.3-3.8)."""
import base64
import collections
import concurrent.futures
import faulthandler
import hashlib
import importlib
import json
import multiprocessing
import os
import signal
import subprocess
import sys
import tempfile
import time
import traceback

from .tape import Tape, derive_seed

VERIF = os.path.dirname(os.path.dirname(os.path.abspath(__file__)))
REPO = os.environ.get("VERIF_REPO", "/repo")
ENGINE_VERSION = 1

ENGINES = {
    "C01": "checks.c01",
    "C02": "checks.c02",
    "C03": "checks.c03",
    "C04": "checks.c04",
    "C05": "checks.c05",
    "C10": "checks.c10",
    "C11": "checks.c11",
    "C12": "checks.c12",
    "C13": "checks.c13",
    "C14": "checks.c14",
    "C15": "checks.c15",
    "C16": "checks.c16",
    "C18": "checks.c18",
    "C20": "checks.c20",
}


class HarnessError(Exception):
    pass


# ---------------------------------------------------------------------------
# SUT import
# ---------------------------------------------------------------------------
def import_sut():
    """Import pdfminer from VERIF_REPO (pure Python: importing *is* the rebuild)."""
    if sys.path[0] != REPO:
        sys.path.insert(0, REPO)
    sys.dont_write_bytecode = True
    import logging

    import pdfminer

    here = os.path.realpath(os.path.dirname(pdfminer.__file__))
    want = os.path.realpath(os.path.join(REPO, "pdfminer"))
    if here != want:
        raise HarnessError("pdfminer imported from %s, expected %s" % (here, want))
    logging.disable(logging.CRITICAL)
    return pdfminer


# ---------------------------------------------------------------------------
# run-level data
# ---------------------------------------------------------------------------
class Dev:
    """A deviation of the real outcome from the oracle, with a stable signature."""

    __slots__ = ("sig", "msg")

    def __init__(self, sig, msg=""):
        self.sig = sig
        self.msg = msg

    def __repr__(self):
        return "Dev(%s: %s)" % (self.sig, self.msg[:200])


class Outcome:
    __slots__ = ("devs", "scen", "nontrivial", "sample", "item")

    def __init__(self, devs=(), scen="", nontrivial=True, sample=None, item=None):
        # item: optional JSON-able form of the generated scenario from which run(tape, ctx, item)
        # reproduces it without the generator draws (enables scenario-level shrinking)
        self.item = item
        self.devs = list(devs)
        self.scen = scen
        self.nontrivial = nontrivial
        self.sample = sample


class Ctx:
    """Per-batch counters an engine reports into."""

    def __init__(self, tier):
        self.tier = tier
        self.probes = collections.Counter()
        self.faults = collections.Counter()
        self.seams = collections.Counter()
        self.steps = 0

    def probe(self, name, n=1):
        self.probes[name] += n

    def fault(self, kind, n=1):
        self.faults[kind] += n

    def seam(self, kind, n=1):
        self.seams[kind] += n


def load_engine(pid):
    if pid not in ENGINES:
        raise HarnessError("no engine for %s" % pid)
    if VERIF not in sys.path:
        sys.path.insert(1, VERIF)
    return importlib.import_module(ENGINES[pid])


def load_known(pid):
    path = os.path.join(VERIF, "known_findings.json")
    if not os.path.exists(path):
        return {}
    with open(path) as f:
        data = json.load(f)
    return {e["sig"]: e.get("what", "") for e in data.get("findings", []) if e.get("property") == pid}


def _h64(s):
    return int.from_bytes(hashlib.blake2b(s.encode("utf-8", "backslashreplace"), digest_size=8).digest(), "big")


# ---------------------------------------------------------------------------
# one job (= batch) in a worker process
# ---------------------------------------------------------------------------
SCEN_CAP = 300000


def run_one(engine, tape, ctx, item):
    """Run one scenario; exceptions escaping the engine are harness errors."""
    out = engine.run(tape, ctx, item)
    tape.note([d.sig for d in out.devs])
    tape.note(out.scen)
    return out


def _job_iter(engine, job, seed):
    """Yield (run index, tape, item) for a job."""
    if job["kind"] == "rand":
        for r in range(job["runs"]):
            yield r, Tape(derive_seed(seed, engine.ID, job["batch"], r)), None
    else:
        for r, item in enumerate(engine.items(job)):
            yield r, Tape(derive_seed(seed, engine.ID, "item", job.get("batch", 0), r)), item


def run_job(pid, job, tier, seed, deadline, known_sigs):
    faulthandler.dump_traceback_later(max(60.0, deadline - time.time() + 180.0), exit=True)
    res = {
        "job": job,
        "evals": 0,
        "nontrivial": 0,
        "scens": set(),
        "probes": None,
        "faults": None,
        "seams": None,
        "steps": 0,
        "samples": [],
        "known": collections.Counter(),
        "viol": [],
        "digest": hashlib.sha256(),
        "error": None,
        "complete": False,
        "capped": False,
    }
    ctx = Ctx(tier)
    try:
        # workers run in an empty scratch cwd: a stray relative path must never resolve into /verif or /repo
        safe_cwd = os.path.join(tempfile.gettempdir(), "verif-cwd")
        os.makedirs(safe_cwd, exist_ok=True)
        os.chdir(safe_cwd)
        engine = load_engine(pid)
        engine.setup()
        if time.time() > deadline:
            res["skipped"] = True
        else:
            for r, tape, item in _job_iter(engine, job, seed):
                if time.time() > deadline:
                    break
                out = run_one(engine, tape, ctx, item)
                res["evals"] += 1
                res["digest"].update(tape.digest().encode())
                if out.nontrivial:
                    res["nontrivial"] += 1
                    if len(res["scens"]) < SCEN_CAP:
                        res["scens"].add(_h64(out.scen))
                    else:
                        res["capped"] = True
                if out.sample is not None and len(res["samples"]) < 2:
                    res["samples"].append(out.sample)
                stop = False
                for d in out.devs:
                    if d.sig in known_sigs:
                        res["known"][d.sig] += 1
                    else:
                        res["viol"].append(
                            {"sig": d.sig, "msg": d.msg, "tape": list(tape.rec), "item": item, "item_alt": out.item if item is None else None, "run": r, "job": job}
                        )
                        stop = True
                if stop:
                    break  # later runs in this process may be contaminated
            else:
                res["complete"] = True
    except BaseException:
        res["error"] = traceback.format_exc()
    faulthandler.cancel_dump_traceback_later()
    res["probes"] = dict(ctx.probes)
    res["faults"] = dict(ctx.faults)
    res["seams"] = dict(ctx.seams)
    res["steps"] = ctx.steps
    res["digest"] = res["digest"].hexdigest()
    return res


# ---------------------------------------------------------------------------
# forked single-run execution (minimiser, determinism self-check)
# ---------------------------------------------------------------------------
def fork_call(fn, timeout=20):
    """Run fn() in a forked child; returns its JSON-able result or {'error':..}."""
    r, w = os.pipe()
    pid = os.fork()
    if pid == 0:
        os.close(r)
        try:
            signal.alarm(int(timeout) + 5)
            out = fn()
            data = json.dumps(out).encode()
        except BaseException:
            data = json.dumps({"error": traceback.format_exc()}).encode()
        try:
            with os.fdopen(w, "wb") as f:
                f.write(data)
        finally:
            os._exit(0)
    os.close(w)
    chunks = []
    t0 = time.time()
    import select

    with os.fdopen(r, "rb") as f:
        while True:
            left = timeout - (time.time() - t0)
            if left <= 0:
                try:
                    os.kill(pid, signal.SIGKILL)
                except OSError:
                    pass
                os.waitpid(pid, 0)
                return {"error": "timeout"}
            rl, _, _ = select.select([f], [], [], left)
            if rl:
                b = f.read()
                chunks.append(b)
                break
    os.waitpid(pid, 0)
    data = b"".join(chunks)
    if not data:
        return {"error": "child died"}
    return json.loads(data)


def exec_single(engine, tape_list, item, tier="quick"):
    ctx = Ctx(tier)
    tape = Tape(replay=tape_list)
    out = run_one(engine, tape, ctx, item)
    return {
        "sigs": [d.sig for d in out.devs],
        "msgs": [d.msg for d in out.devs],
        "tape": list(tape.rec),
        "digest": tape.digest(),
        "sample": out.sample,
    }


def minimise(engine, viol, budget_s):
    """Shrink the tape (and item, if the engine knows how) keeping the same signature."""
    target = viol["sig"]
    item = viol["item"]
    best = list(viol["tape"])
    t_end = time.time() + budget_s
    tries = 0

    def holds(cand, it):
        nonlocal tries
        tries += 1
        r = fork_call(lambda: exec_single(engine, cand, it), timeout=30)
        return "sigs" in r and target in r["sigs"], r

    ok, r = holds(best, item)
    if not ok:
        return best, item, {"reproduced": False, "tries": tries, "detail": r.get("error", r.get("sigs"))}
    best = r["tape"]
    if item is None and viol.get("item_alt") is not None:
        # the engine exported the scenario: switch to item form if that reproduces by itself
        ok2, r2 = holds([], viol["item_alt"])
        if ok2:
            item, best = viol["item_alt"], r2["tape"]
    # engine-specific item shrinking first (smaller scenario => fewer draws)
    shr = getattr(engine, "shrink_item", None)
    if shr and item is not None:
        progress = True
        while progress and time.time() < t_end:
            progress = False
            for cand_item in shr(item):
                if time.time() > t_end:
                    break
                ok, r = holds(best, cand_item)
                if ok:
                    item = cand_item
                    best = r["tape"]
                    progress = True
                    break
    # generic tape passes
    improved = True
    while improved and time.time() < t_end:
        improved = False
        # 1. truncate the tail (exhausted tape reads as zeros)
        lo, hi = 0, len(best)
        while lo < hi and time.time() < t_end:
            mid = (lo + hi) // 2
            ok, r = holds(best[:mid], item)
            if ok:
                hi = mid
            else:
                lo = mid + 1
        if hi < len(best):
            best = best[:hi]
            improved = True
        # 2. delete spans
        for span in (16, 8, 4, 2, 1):
            i = len(best) - span
            while i >= 0 and time.time() < t_end:
                cand = best[:i] + best[i + span :]
                ok, r = holds(cand, item)
                if ok and len(r["tape"]) <= len(best):
                    best = cand
                    improved = True
                i -= span if not ok else 1
        # 3. zero / halve entries
        for i in range(len(best)):
            if time.time() > t_end:
                break
            if best[i] == 0:
                continue
            for v in (0, best[i] // 2, best[i] - 1):
                if v >= best[i]:
                    continue
                cand = best[:i] + [v] + best[i + 1 :]
                ok, r = holds(cand, item)
                if ok:
                    best = cand
                    improved = True
                    break
    return best, item, {"reproduced": True, "tries": tries}


# ---------------------------------------------------------------------------
# replay files
# ---------------------------------------------------------------------------
def write_replay(pid, viol, tape, item, seed, info, sample):
    os.makedirs(os.path.join(VERIF, "replays"), exist_ok=True)
    sig8 = hashlib.sha256(viol["sig"].encode()).hexdigest()[:8]
    path = os.path.join(VERIF, "replays", "%s-%s-%d.json" % (pid, sig8, seed))
    doc = {
        "property": pid,
        "engine_version": ENGINE_VERSION,
        "seed": seed,
        "job": viol["job"],
        "run": viol["run"],
        "sig": viol["sig"],
        "msg": viol["msg"],
        "tape": tape,
        "item": item,
        "minimise": info,
        "rendering": sample,
        "original_tape_len": len(viol["tape"]),
    }
    with open(path, "w") as f:
        json.dump(doc, f, indent=1, default=_json_default)
    return path


def _json_default(o):
    if isinstance(o, (bytes, bytearray)):
        return {"b64": base64.b64encode(bytes(o)).decode()}
    if isinstance(o, (set, frozenset)):
        return sorted(o)
    return repr(o)


def do_replay(pid, path):
    with open(path) as f:
        doc = json.load(f)
    if doc["property"] != pid:
        print("HARNESS-ERROR replay file is for %s" % doc["property"])
        return 2
    import_sut()
    engine = load_engine(pid)
    engine.setup()
    known = load_known(pid)
    r = exec_single(engine, doc["tape"], doc.get("item"))
    print("replay %s: recorded sig=%s" % (path, doc["sig"]))
    rc = 0
    for s, m in zip(r["sigs"], r["msgs"]):
        if s in known:
            print("KNOWN-FINDING: property=%s %s %s" % (pid, s, known[s]))
        else:
            print("  deviation %s: %s" % (s, m[:2000]))
            rc = 1
    if rc:
        print("VIOLATION property=%s replay=%s" % (pid, path))
    else:
        print("replay: no unlisted deviation (recorded signature %s)" % ("reproduced as known" if doc["sig"] in r["sigs"] else "not reproduced"))
    return rc


# ---------------------------------------------------------------------------
# determinism self-check
# ---------------------------------------------------------------------------
def digest_runs(pid, seed, batch, nruns, tier="quick"):
    engine = load_engine(pid)
    engine.setup()
    ctx = Ctx(tier)
    out = []
    enum_jobs = engine.jobs(tier, seed) if getattr(engine, "ENUM_ONLY", False) else None
    for r in range(nruns):
        tape = Tape(derive_seed(seed, pid, batch, r))
        item = None
        if enum_jobs:
            # an engine that only runs enumerated items: a fixed spread of items over its jobs
            import itertools

            job = enum_jobs[(batch + r * 7) % len(enum_jobs)]
            item = next(itertools.islice(engine.items(job), r % 5, None), None)
            if item is None:
                continue
        run_one(engine, tape, ctx, item)
        out.append(tape.digest())
    return out


def determinism_selfcheck(pid, seed, nruns=8):
    """Same seeds twice: forked child here, and a fresh interpreter under another PYTHONHASHSEED."""
    batch = 9000
    a = fork_call(lambda: digest_runs(pid, seed, batch, nruns), timeout=120)
    env = dict(os.environ)
    env["PYTHONHASHSEED"] = "314159"
    env["VERIF_NO_REEXEC"] = "1"
    p = subprocess.run(
        [sys.executable, os.path.join(VERIF, "check"), pid, "--digest", str(seed), str(batch), str(nruns)],
        env=env,
        capture_output=True,
        text=True,
        timeout=300,
    )
    try:
        b = json.loads(p.stdout.strip().splitlines()[-1])
    except Exception:
        return {"ok": False, "error": "fresh interpreter failed: %s %s" % (p.stdout[-500:], p.stderr[-1500:])}
    if isinstance(a, dict):
        return {"ok": False, "error": "fork failed: %s" % a.get("error")}
    return {"ok": a == b, "runs": nruns, "forked_vs_fresh_other_hashseed": "equal" if a == b else "DIFFERENT", "a": a if a != b else None, "b": b if a != b else None}


# ---------------------------------------------------------------------------
# evidence
# ---------------------------------------------------------------------------
def validate_evidence(doc):
    schema_path = "/root/.vp/EVIDENCE.schema.json"
    try:
        import jsonschema  # optional

        with open(schema_path) as f:
            jsonschema.validate(doc, json.load(f))
        return "jsonschema"
    except ImportError:
        pass
    except FileNotFoundError:
        pass
    # structural fallback
    for k in ("property_id", "tier", "seed", "level", "coverage", "wall_s"):
        assert k in doc, k
    cov = doc["coverage"]
    assert isinstance(cov["evaluations"], int) and cov["evaluations"] >= 1
    assert isinstance(cov["distinct_nontrivial"], int) and cov["distinct_nontrivial"] >= 2
    assert isinstance(cov["rule"], str) and isinstance(cov["samples"], list) and cov["samples"]
    return "builtin"


# ---------------------------------------------------------------------------
# the check
# ---------------------------------------------------------------------------
def run_check(pid, tier, seed, budget_s=None, jobs_n=None):
    t0 = time.time()
    print("VERIF_SEED=%d property=%s tier=%s repo=%s" % (seed, pid, tier, REPO))
    import_sut()
    engine = load_engine(pid)
    engine.setup()
    known = load_known(pid)
    params = engine.TIERS[tier]
    budget = float(budget_s if budget_s is not None else params["budget_s"])
    nproc = int(jobs_n or os.environ.get("VERIF_JOBS") or min(16, os.cpu_count() or 4))
    joblist = engine.jobs(tier, seed)
    deadline = t0 + budget
    results = []
    harness_errors = []
    mpctx = multiprocessing.get_context("fork")
    with concurrent.futures.ProcessPoolExecutor(max_workers=nproc, mp_context=mpctx) as ex:
        futs = [ex.submit(run_job, pid, job, tier, seed, deadline, set(known)) for job in joblist]
        try:
            for f in concurrent.futures.as_completed(futs, timeout=budget * 3 + 300):
                try:
                    results.append(f.result())
                except BaseException as e:
                    harness_errors.append("worker failed: %r" % (e,))
        except concurrent.futures.TimeoutError:
            harness_errors.append("watchdog: workers did not finish within %ds" % (budget * 3 + 300))
            for p in list(getattr(ex, "_processes", {}).values()):
                try:
                    p.kill()
                except Exception:
                    pass
    for r in results:
        if r.get("error"):
            harness_errors.append(r["error"])

    # ---- aggregate
    evals = sum(r["evals"] for r in results)
    scens = set()
    for r in results:
        scens |= r["scens"]
    probes, faults, seams, knownc = (collections.Counter() for _ in range(4))
    for r in results:
        for k, v in (r["probes"] or {}).items():
            if k.startswith("max "):
                probes[k] = max(probes.get(k, 0), v)
            else:
                probes[k] += v
        faults.update(r["faults"] or {})
        seams.update(r["seams"] or {})
        knownc.update(r["known"])
    steps = sum(r["steps"] for r in results)
    samples = []
    for r in sorted(results, key=lambda r: json.dumps(r["job"], sort_keys=True)):
        for s in r["samples"]:
            if len(samples) < 4:
                samples.append(s)
    viols = [v for r in results for v in r["viol"]]
    jobs_complete = sum(1 for r in results if r["complete"])
    exhaustive = bool(getattr(engine, "EXHAUSTIVE", {}).get(tier)) and jobs_complete == len(joblist) and not harness_errors

    # ---- determinism self-check (small slice inside every check)
    det = {"ok": True, "skipped": True}
    if not harness_errors and os.environ.get("VERIF_SKIP_DET") != "1" and getattr(engine, "DETERMINISM_SLICE", 8):
        try:
            det = determinism_selfcheck(pid, seed, engine.DETERMINISM_SLICE if hasattr(engine, "DETERMINISM_SLICE") else 8)
        except Exception as e:
            det = {"ok": False, "error": repr(e)}
        if not det.get("ok"):
            harness_errors.append("determinism self-check failed: %s" % json.dumps(det)[:2000])

    # ---- violations: minimise, write replay files
    vlines = []
    by_sig = collections.OrderedDict()
    for v in sorted(viols, key=lambda v: (len(v["tape"]), json.dumps(v["job"], sort_keys=True), v["run"])):
        by_sig.setdefault(v["sig"], v)
    mini_budget = (20 if tier == "quick" else 120) / max(1, min(3, len(by_sig)))
    for i, (sig, v) in enumerate(by_sig.items()):
        if i < 3:
            tape, item, info = minimise(engine, v, mini_budget)
            rr = fork_call(lambda: exec_single(engine, tape, item), timeout=60)
            sample = rr.get("sample") if isinstance(rr, dict) else None
        else:
            tape, item, info, sample = v["tape"], v["item"], {"reproduced": None, "skipped": True}, None
        path = write_replay(pid, v, tape, item, seed, info, sample)
        vlines.append((sig, v["msg"], path, info))

    # ---- output
    for sig, what in sorted(known.items()):
        print("KNOWN-FINDING: property=%s %s -- %s [seen %d times in this run]" % (pid, sig, what, knownc.get(sig, 0)))
    wall = time.time() - t0
    zero_probes = [p for p in getattr(engine, "PROBES", []) if not probes.get(p)]
    for p in zero_probes:
        print("warning: probe never hit: %s" % p)
    cov = {
        "evaluations": evals,
        "distinct_nontrivial": len(scens),
        "rule": engine.RULE,
        "samples": samples or ["(no sample recorded)"],
        "exhaustive": exhaustive,
        "runs_per_hour": int(evals / wall * 3600) if wall > 0 else 0,
        "jobs": len(joblist),
        "jobs_completed": jobs_complete,
        "workers": nproc,
        "sim_steps_total": steps,
        "faults_injected": dict(sorted(faults.items())),
        "seam_decisions": dict(sorted(seams.items())),
        "probes": dict(sorted(probes.items())),
        "probes_never_hit": zero_probes,
        "components_real": getattr(engine, "COMPONENTS_REAL", []),
        "components_stub": getattr(engine, "COMPONENTS_STUB", []),
        "determinism_selfcheck": det,
        "known_findings_seen": dict(sorted(knownc.items())),
        "violation_signatures": [s for s, _, _, _ in vlines],
        "distinct_count_capped": any(r.get("capped") for r in results),
    }
    ev = {
        "property_id": pid,
        "tier": tier,
        "seed": seed,
        "level": engine.LEVEL,
        "coverage": cov,
        "assumptions": getattr(engine, "ASSUMPTIONS", []),
        "wall_s": round(wall, 2),
        "violations": len(vlines),
    }
    os.makedirs(os.path.join(VERIF, "evidence"), exist_ok=True)
    evpath = os.path.join(VERIF, "evidence", "%s.json" % pid)
    try:
        how = validate_evidence(ev)
    except Exception as e:
        harness_errors.append("evidence does not validate: %r" % (e,))
        how = "invalid"
    with open(evpath, "w") as f:
        json.dump(ev, f, indent=1, default=_json_default, sort_keys=True)
    print(
        "%s %s: evaluations=%d distinct_nontrivial=%d faults=%d known_seen=%d violations=%d wall=%.1fs evidence=%s (%s)"
        % (pid, tier, evals, len(scens), sum(faults.values()), sum(knownc.values()), len(vlines), wall, evpath, how)
    )
    if harness_errors:
        for e in harness_errors[:5]:
            print("HARNESS-ERROR %s" % e.strip().replace("\n", "\n    "))
        if not vlines:
            return 2
    for sig, msg, path, info in vlines:
        print("  %s: %s" % (sig, msg[:1500].replace("\n", "\n    ")))
        print("  minimise: %s" % json.dumps(info))
        print("VIOLATION property=%s replay=%s" % (pid, path))
    return 1 if vlines else 0


def std_jobs(engine, tier, seed):
    p = engine.TIERS[tier]
    return [{"kind": "rand", "batch": b, "runs": p["runs"]} for b in range(p["batches"])]
