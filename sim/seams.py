"""Seams the simulator owns (DESIGN 3.2).  None needs a source hook.

* ChunkSeam  - descriptor installed on PSBaseParser.BUFSIZ: the chunk schedule
* StepClock  - sys.monitoring local events on pdfminer code objects: the sim clock
* SimAddr    - module-level ``id`` bound in pdfminer.* modules: the address seam
* FsMonitor  - sys.addaudithook based recorder of file-system effects
"""
import os
import sys
import types


class SimBudgetExceeded(BaseException):
    """Raised from the step clock: the SUT did more work than the budget allows."""


# --------------------------------------------------------------------------
# chunk schedule
# --------------------------------------------------------------------------
class ChunkSeam:
    """Data-less descriptor: every ``self.BUFSIZ`` read asks the schedule."""

    def __init__(self):
        self.policy = None  # callable(parser) -> int, or None for the default 4096
        self.reads = 0
        self.nondefault = 0

    def __get__(self, obj, objtype=None):
        p = self.policy
        if p is None:
            return 4096
        self.reads += 1
        n = p(obj)
        if n != 4096:
            self.nondefault += 1
        return n


CHUNK = ChunkSeam()


def install_chunk_seam():
    from pdfminer.psparser import PSBaseParser

    if not isinstance(PSBaseParser.__dict__.get("BUFSIZ"), ChunkSeam):
        PSBaseParser.BUFSIZ = CHUNK
    return CHUNK


class const_chunks:
    def __init__(self, k):
        self.k = k

    def __call__(self, parser):
        return self.k


class listed_chunks:
    """Sizes taken from a pre-drawn list (cyclically): a pure function of the tape."""

    def __init__(self, sizes):
        self.sizes = sizes
        self.i = 0

    def __call__(self, parser):
        v = self.sizes[self.i % len(self.sizes)]
        self.i += 1
        return v


class placed_chunks:
    """Make refill boundaries land on chosen absolute offsets ('cuts').

    On each refill the parser's file position is read and the size is chosen so that
    the buffer ends at the next cut; after the last cut the fallback size is used.
    Works for forward refills (fillbuf); revreadlines sees the fallback size.
    """

    def __init__(self, cuts, fallback=4096):
        self.cuts = sorted(set(c for c in cuts if c > 0))
        self.fallback = fallback

    def __call__(self, parser):
        try:
            pos = parser.fp.tell()
        except Exception:
            return self.fallback
        for c in self.cuts:
            if c > pos:
                return min(c - pos, self.fallback) if self.fallback else c - pos
        return self.fallback


def draw_chunk_policy(tape, cuts=None, allow_default=True):
    """Draw a chunk policy from the tape; returns (policy or None, description)."""
    kinds = ["default", "const", "mixed", "small"]
    if cuts:
        kinds.append("placed")
    k = tape.pick(kinds if allow_default else kinds[1:], "chunk.kind")
    if k == "default":
        return None, "default"
    if k == "const":
        c = tape.pick([1, 2, 3, 4, 5, 7, 8, 13, 16, 31, 61, 64, 127, 509, 1024], "chunk.const")
        return const_chunks(c), "const:%d" % c
    if k == "small":
        sizes = [1 + tape.draw(6, "chunk.small") for _ in range(16)]
        return listed_chunks(sizes), "small:%s" % sizes
    if k == "mixed":
        sizes = [tape.pick([1, 2, 3, 5, 8, 17, 64, 300, 4096], "chunk.mixed") for _ in range(12)]
        return listed_chunks(sizes), "mixed:%s" % sizes
    # placed
    n = 1 + tape.draw(min(6, len(cuts)), "chunk.ncut")
    chosen = sorted({tape.pick(cuts, "chunk.cut") for _ in range(n)})
    fb = tape.pick([4096, 64, 7], "chunk.fb")
    return placed_chunks(chosen, fb), "placed:%s/fb%d" % (chosen, fb)


# --------------------------------------------------------------------------
# step clock
# --------------------------------------------------------------------------
class StepClock:
    TOOL = 3

    def __init__(self):
        self.n = 0
        self.budget = 1 << 62
        self.installed = False
        self.codes = 0

    def _tick(self, *a):
        self.n += 1
        if self.n > self.budget:
            # one-shot: let the exception unwind without being re-raised at every step
            self.budget = 1 << 62
            raise SimBudgetExceeded(self.n)

    def install(self, module_prefix="pdfminer"):
        if self.installed:
            return
        mon = sys.monitoring
        mon.use_tool_id(self.TOOL, "verif-stepclock")
        ev = mon.events
        mon.register_callback(self.TOOL, ev.PY_START, self._tick)
        mon.register_callback(self.TOOL, ev.JUMP, self._tick)
        seen = set()

        def walk(code):
            if code in seen:
                return
            seen.add(code)
            mon.set_local_events(self.TOOL, code, ev.PY_START | ev.JUMP)
            for c in code.co_consts:
                if isinstance(c, types.CodeType):
                    walk(c)

        def visit(obj, depth=0):
            if isinstance(obj, types.FunctionType):
                walk(obj.__code__)
            elif isinstance(obj, (classmethod, staticmethod)):
                visit(obj.__func__, depth)
            elif isinstance(obj, property):
                for f in (obj.fget, obj.fset, obj.fdel):
                    if f is not None:
                        visit(f, depth)
            elif isinstance(obj, type) and depth < 3:
                for v in list(vars(obj).values()):
                    visit(v, depth + 1)

        for name, mod in sorted(sys.modules.items()):
            if mod is None or not (name == module_prefix or name.startswith(module_prefix + ".")):
                continue
            if name.startswith("pdfminer.cmap."):
                continue
            for v in list(vars(mod).values()):
                if getattr(v, "__module__", None) == name or isinstance(v, types.FunctionType):
                    visit(v)
        self.codes = len(seen)
        self.installed = True

    CPU_S = 120.0  # CPU seconds one SUT call may burn where the step clock cannot see (inside C code: regex, zlib ...)

    def _cpu_alarm(self, signum, frame):
        self.budget = 1 << 62
        raise SimBudgetExceeded("cpu-seconds")

    def start(self, budget, cpu_s=None):
        """Arms the step budget and a watchdog on the process's own CPU time (ITIMER_VIRTUAL: it does not run while the
        process waits for a core, so a loaded machine does not trip it)."""
        import signal

        self.n = 0
        self.budget = budget
        try:
            signal.signal(signal.SIGVTALRM, self._cpu_alarm)
            signal.setitimer(signal.ITIMER_VIRTUAL, cpu_s or self.CPU_S)
            self._armed = True
        except (ValueError, OSError, AttributeError):
            self._armed = False  # not the main thread / not supported: step budget only

    def stop(self):
        import signal

        if getattr(self, "_armed", False):
            signal.setitimer(signal.ITIMER_VIRTUAL, 0)
            self._armed = False
        self.budget = 1 << 62
        return self.n


CLOCK = StepClock()


# --------------------------------------------------------------------------
# address seam
# --------------------------------------------------------------------------
class SimAddr:
    """Injective pseudo-address assignment chosen by a policy.

    policy 'mono'   : addresses increase with first request
    policy 'rev'    : addresses decrease with first request
    policy 'rand'   : addresses from a tape-seeded permutation stream
    Objects are pinned for the life of the map so real ids are not reused.
    """

    def __init__(self):
        self.reset("off")

    def reset(self, policy, seed=0):
        self.policy = policy
        self.map = {}
        self.pins = []
        self.n = 0
        self.seed = seed
        self.calls = 0
        self.used = set()

    def __call__(self, obj):
        if self.policy == "off":
            return id(obj)
        self.calls += 1
        k = id(obj)
        v = self.map.get(k)
        if v is None:
            self.n += 1
            if self.policy == "mono":
                v = 0x10000000 + 16 * self.n
            elif self.policy == "rev":
                v = 0x7FFFFFFF0 - 16 * self.n
            else:
                # splitmix-style bijection of the counter: injective, seed dependent
                x = (self.n * 0x9E3779B97F4A7C15 + self.seed * 0xBF58476D1CE4E5B9) & (2**64 - 1)
                x ^= x >> 30
                x = (x * 0xBF58476D1CE4E5B9) & (2**64 - 1)
                x ^= x >> 27
                x = (x * 0x94D049BB133111EB) & (2**64 - 1)
                x ^= x >> 31
                v = x
            self.map[k] = v
            self.pins.append(obj)
        return v


ADDR = SimAddr()


def install_addr_seam():
    """Bind a module-level ``id`` in every pdfminer module (global lookup wins over builtin)."""
    n = 0
    for name, mod in list(sys.modules.items()):
        if mod is not None and (name == "pdfminer" or name.startswith("pdfminer.")) and not name.startswith(
            "pdfminer.cmap."
        ):
            mod.__dict__["id"] = ADDR
            n += 1
    return n


# --------------------------------------------------------------------------
# file-system monitor
# --------------------------------------------------------------------------
class FsMonitor:
    EVENTS = {
        "open",
        "os.mkdir",
        "os.rename",
        "os.remove",
        "os.rmdir",
        "os.link",
        "os.symlink",
        "os.truncate",
        "os.chmod",
        "os.chown",
        "shutil.copyfile",
        "shutil.move",
        "shutil.rmtree",
        "os.listdir",
        "os.scandir",
    }

    def __init__(self):
        self.active = False
        self.events = []
        self.hooked = False

    def _hook(self, event, args):
        if not self.active or event not in self.EVENTS:
            return
        # opens made by the import system are the interpreter's, not the document's
        f = sys._getframe(1)
        depth = 0
        while f is not None and depth < 60:
            fn = f.f_code.co_filename
            if "importlib" in fn or fn.startswith("<frozen"):
                return
            f = f.f_back
            depth += 1
        try:
            if event == "open":
                path, mode, flags = args[0], args[1], args[2]
                self.events.append(("open", _p(path), mode if mode is not None else "", flags))
            else:
                self.events.append((event,) + tuple(_p(a) for a in args[:2]))
        except Exception as e:  # never let the monitor perturb the SUT
            self.events.append(("monitor-error", repr(e)))

    def install(self):
        if not self.hooked:
            sys.addaudithook(self._hook)
            self.hooked = True

    def start(self):
        self.events = []
        self.active = True

    def stop(self):
        self.active = False
        return self.events


def _p(x):
    if isinstance(x, bytes):
        return os.fsdecode(x)
    if isinstance(x, (str, int)) or x is None:
        return x
    try:
        return os.fspath(x)
    except TypeError:
        return repr(x)


FSMON = FsMonitor()


# --------------------------------------------------------------------------
# cache-eviction buggify
# --------------------------------------------------------------------------
class EvictSeam:
    """Wraps PDFDocument.getobj / PDFResourceManager.get_font: on a scheduled coin flip the relevant
    cache entry is dropped before delegating (legal: caching is declared transparent)."""

    def __init__(self):
        self.coins = None  # list of 0/1 consumed cyclically, or None = never evict
        self.i = 0
        self.evictions = 0
        self.installed = False

    def flip(self):
        c = self.coins
        if not c:
            return False
        v = c[self.i % len(c)]
        self.i += 1
        return bool(v)

    def set(self, coins):
        self.coins = coins
        self.i = 0

    def install(self):
        if self.installed:
            return
        from pdfminer.pdfdocument import PDFDocument
        from pdfminer.pdfinterp import PDFResourceManager

        seam = self
        orig_getobj = PDFDocument.getobj
        orig_getfont = PDFResourceManager.get_font

        def getobj(self, objid):
            if seam.coins and seam.flip():
                if self._cached_objs.pop(objid, None) is not None:
                    seam.evictions += 1
                if seam.flip():
                    if self._parsed_objs:
                        seam.evictions += 1
                    self._parsed_objs.clear()
            return orig_getobj(self, objid)

        def get_font(self, objid, spec):
            if seam.coins and seam.flip():
                if self._cached_fonts.pop(objid, None) is not None:
                    seam.evictions += 1
            return orig_getfont(self, objid, spec)

        PDFDocument.getobj = getobj
        PDFResourceManager.get_font = get_font
        self.installed = True


EVICT = EvictSeam()


def draw_evict(tape, label="evict"):
    """Draw an eviction schedule: None (never) or a cyclic coin list."""
    k = tape.draw(4, label + ".mode")
    if k <= 1:
        return None
    p = 20 if k == 2 else 60
    return [1 if tape.coin(p, 100, label + ".coin") else 0 for _ in range(16)]
