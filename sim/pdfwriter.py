"""SimWriter: an independent producer of PDF bytes (DESIGN 5, "All engines share the SimWriter").

Object model (harness side, independent of pdfminer):
    None, bool, int, Real(text), Name(bytes), Str(bytes), list, dict{bytes: value}, Ref(num, gen),
    Stream(dict, raw)    (raw = the bytes between 'stream' EOL and EOL 'endstream', already encoded)

Ser turns a value into bytes.  With a tape and wild=True every physical choice (white space,
comments, EOLs, escapes, hex case, delimiters) is drawn from the tape and the offsets of
interesting multi-byte constructs are exported in ``cuts`` so that read-buffer boundaries can
be *placed* inside them.  Without a tape the spelling is canonical and deterministic.
"""


from fractions import Fraction


class Real:
    __slots__ = ("text",)

    def __init__(self, text):
        self.text = text

    def __repr__(self):
        return "Real(%s)" % self.text

    def value(self):
        return float(self.text)


class Name:
    __slots__ = ("b",)

    def __init__(self, b):
        self.b = b if isinstance(b, bytes) else b.encode("latin-1")

    def __repr__(self):
        return "/%r" % self.b

    def __eq__(self, o):
        return isinstance(o, Name) and o.b == self.b

    def __hash__(self):
        return hash(self.b)


class Str:
    __slots__ = ("b", "hex")

    def __init__(self, b, hex=None):
        self.b = b
        self.hex = hex  # None: writer decides; True/False: forced

    def __repr__(self):
        return "Str(%r)" % self.b


class Ref:
    __slots__ = ("num", "gen")

    def __init__(self, num, gen=0):
        self.num = num
        self.gen = gen

    def __repr__(self):
        return "Ref(%d,%d)" % (self.num, self.gen)


class Stream:
    __slots__ = ("dict", "raw", "eol", "pre_end")

    def __init__(self, dict, raw, eol=b"\n", pre_end=b"\n"):
        self.dict = dict
        self.raw = raw
        self.eol = eol  # EOL after the 'stream' keyword: b"\n" or b"\r\n"
        self.pre_end = pre_end  # EOL before 'endstream'

    def __repr__(self):
        return "Stream(%r, %d bytes)" % (self.dict, len(self.raw))


class RawToken:
    """Pre-spelled bytes emitted verbatim as one regular token (used by fault injectors)."""

    __slots__ = ("b",)

    def __init__(self, b):
        self.b = b


WS = [b" ", b"\n", b"\r", b"\t", b"\x0c", b"\x00"]
DELIMS = b"()<>[]{}/%"
REGULAR = bytes(c for c in range(33, 127) if c not in DELIMS and c != 0x23)
ESCAPES = {8: b"\\b", 9: b"\\t", 10: b"\\n", 12: b"\\f", 13: b"\\r", 40: b"\\(", 41: b"\\)", 92: b"\\\\"}


class Ser:
    def __init__(self, tape=None, wild=False, base=0, nul_ws=True):
        self.t = tape
        self.wild = wild and tape is not None
        self.out = bytearray()
        self.base = base
        self.cuts = []  # absolute offsets inside multi-byte constructs
        self.last_regular = False
        self.features = set()
        self.nul_ws = nul_ws

    # -- low level -------------------------------------------------------------
    def pos(self):
        return self.base + len(self.out)

    def raw(self, b, regular_end=False):
        self.out += b
        self.last_regular = regular_end

    def cut_inside(self, start, end):
        """Mark every offset strictly inside [start, end) as an interesting boundary."""
        for o in range(start + 1, end):
            self.cuts.append(o)

    def ws(self, need=False):
        """White space (and comments) between tokens; ``need``: at least one byte."""
        if not self.wild:
            if need:
                self.raw(b" ")
            return
        t = self.t
        k = t.draw(8, "ws.kind")
        if k == 0 and not need:
            return
        if k <= 3:
            self.raw(b" ")
            return
        if k == 4:
            self.raw(t.pick([b"\n", b"\r\n", b"\r"], "ws.eol"))
            if self.out[-2:] == b"\r\n":
                self.cuts.append(self.pos() - 1)
            self.features.add("ws-eol")
            return
        if k == 5:
            pool = WS if self.nul_ws else WS[:5]
            n = 1 + t.draw(4, "ws.n")
            self.raw(b"".join(t.pick(pool, "ws.b") for _ in range(n)))
            self.features.add("ws-mix")
            return
        if k == 6:
            # comment up to an EOL; comments count as white space
            body = bytes(t.pick(b"abc %()<>[]/#\\\t", "ws.cmt") for _ in range(t.draw(6, "ws.cmtlen")))
            if t.coin(20, 100, "ws.cmtevil"):
                # comments that read like file structure: still nothing but white space
                body = t.pick([b"%EOF", b"PDF-1.4", b" endobj", b"endstream", b" 9 0 obj", b"trailer", b"startxref", b"xref", b" stream", b"%EOF  "], "ws.cmtevil.body")
                self.features.add("comment-structural")
            start = self.pos()
            self.raw(b"%" + body + t.pick([b"\n", b"\r", b"\r\n"], "ws.cmteol"))
            self.cut_inside(start, self.pos())
            self.features.add("comment")
            return
        self.raw(b"  " if need or t.coin(50) else b"")
        if need and not self.out[-1:] in (b" ",):
            self.raw(b" ")

    def sep_regular(self):
        """Before a token that starts with a regular character."""
        self.ws(need=self.last_regular)

    def sep_delim(self):
        """Before a token that starts with a delimiter."""
        self.ws(need=False)

    # -- scalars -----------------------------------------------------------------
    def keyword(self, kw):
        self.sep_regular()
        start = self.pos()
        self.raw(kw, regular_end=True)
        if len(kw) > 1:
            self.cut_inside(start, self.pos())

    def integer(self, v):
        self.sep_regular()
        s = str(v)
        if self.wild:
            k = self.t.draw(6, "int.form")
            if k == 1 and v >= 0:
                s = "+" + s
                self.features.add("int-plus")
            elif k == 2:
                neg = s.startswith("-")
                s = ("-" if neg else "") + "0" * (1 + self.t.draw(3, "int.zeros")) + s.lstrip("-")
                self.features.add("int-zeros")
        start = self.pos()
        self.raw(s.encode(), regular_end=True)
        self.cut_inside(start, self.pos())

    def real(self, r):
        self.sep_regular()
        start = self.pos()
        self.raw(r.text.encode(), regular_end=True)
        self.cut_inside(start, self.pos())

    def name(self, n):
        self.sep_delim()
        start = self.pos()
        out = bytearray(b"/")
        for c in n.b:
            must = c not in REGULAR
            if must or (self.wild and self.t.coin(12, 100, "name.esc")):
                hx = "%02x" % c
                if self.wild and self.t.coin(50, 100, "name.case"):
                    hx = hx.upper()
                p = self.base + len(self.out) + len(out)
                out += b"#" + hx.encode()
                self.cuts.extend([p + 1, p + 2])
                self.features.add("name-hex")
            else:
                out.append(c)
        self.raw(bytes(out), regular_end=True)
        self.cut_inside(start, self.pos())

    def string(self, s):
        self.sep_delim()
        hexform = s.hex
        if hexform is None:
            hexform = self.wild and self.t.coin(35, 100, "str.hex")
        if hexform:
            self._hexstring(s.b)
        else:
            self._litstring(s.b)
        self.last_regular = False

    def _hexstring(self, b):
        t = self.t
        start = self.pos()
        out = bytearray(b"<")
        hx = b.hex()
        if self.wild:
            odd = bool(b) and (b[-1] & 0x0F) == 0 and t.coin(60, 100, "hex.odd")
            if odd:
                hx = hx[:-1]
                self.features.add("hex-odd")
            for ch in hx:
                k = t.draw(10, "hex.ch")
                if k == 0:
                    out += t.pick([b" ", b"\n", b"\r\n", b"\t"], "hex.ws")
                    self.features.add("hex-ws")
                out += (ch.upper() if k & 1 else ch).encode()
            if t.coin(15, 100, "hex.tailws"):
                out += b" "
        else:
            out += hx.encode()
        out += b">"
        self.raw(bytes(out))
        self.cut_inside(start, self.pos())
        self.features.add("hexstring")

    def _litstring(self, b):
        t = self.t
        start = self.pos()
        out = bytearray(b"(")

        def p():
            return self.base + len(self.out) + len(out)

        if not self.wild:
            for c in b:
                if c in ESCAPES:
                    out += ESCAPES[c]
                elif c < 32 or c > 126:
                    out += b"\\%03o" % c
                else:
                    out.append(c)
            out += b")"
            self.raw(bytes(out))
            return
        # A subset of a proper matching of the parentheses in b may be written raw.
        raw_paren = set()
        stack = []
        for i, c in enumerate(b):
            if c == 40:
                stack.append(i)
            elif c == 41 and stack:
                j = stack.pop()
                if t.coin(60, 100, "str.rawparen"):
                    raw_paren.add(i)
                    raw_paren.add(j)
        short_oct = False  # previous emission was an octal escape of fewer than 3 digits
        for i, c in enumerate(b):
            if t.coin(4, 100, "str.cont"):
                q = p()
                eol = t.pick([b"\n", b"\r", b"\r\n"], "str.conteol")
                out += b"\\" + eol
                self.cuts.extend(range(q + 1, q + 1 + len(eol)))
                self.features.add("str-continuation-" + {b"\n": "lf", b"\r": "cr", b"\r\n": "crlf"}[eol])
                short_oct = False
            after_cr = out[-1:] == b"\r"
            k = t.draw(10, "str.form")
            q = p()
            if c in (40, 41):
                if i in raw_paren:
                    out.append(c)
                    self.features.add("str-raw-paren")
                    short_oct = False
                    continue
                form = "esc" if k < 6 else "oct"
            elif c == 92 or c == 13:
                form = "esc" if k < 6 else "oct"
            elif c == 10:
                if after_cr:
                    form = "esc" if k < 6 else "oct"
                else:
                    form = ("esc", "esc", "oct", "eol", "eol", "eol", "eol", "eol", "oct", "esc")[k]
            elif c in ESCAPES:  # \b \t \f: raw is fine too
                form = ("esc", "esc", "esc", "oct", "raw", "raw", "raw", "raw", "raw", "raw")[k]
            elif 48 <= c <= 55:
                form = "oct" if (short_oct or k == 0) else "raw"
            elif c in b"nrtbf":
                form = "oct" if k == 0 else "raw"
            else:
                form = ("oct", "unk", "raw", "raw", "raw", "raw", "raw", "raw", "raw", "raw")[k]
            short_oct = False
            if form == "raw":
                out.append(c)
            elif form == "esc":
                out += ESCAPES[c]
                self.cuts.append(q + 1)
                self.features.add("str-escape")
            elif form == "unk":
                out += b"\\" + bytes((c,))
                self.cuts.append(q + 1)
                self.features.add("str-unknown-escape")
            elif form == "eol":
                eol = t.pick([b"\n", b"\r", b"\r\n"], "str.raweol")
                out += eol
                if len(eol) == 2:
                    self.cuts.append(q + 1)
                self.features.add("str-raw-eol-" + {b"\n": "lf", b"\r": "cr", b"\r\n": "crlf"}[eol])
            else:
                sd = b"%o" % c
                digits = max(len(sd), t.pick([3, 3, 2, 1], "oct.digits"))
                out += b"\\" + sd.rjust(digits, b"0")
                self.cuts.extend(range(q + 1, q + 1 + digits))
                self.features.add("str-octal%d" % digits)
                short_oct = digits < 3
        out += b")"
        self.raw(bytes(out))
        self.cuts.append(start + 1)

    # -- containers ----------------------------------------------------------------
    def value(self, v):
        if v is None:
            self.keyword(b"null")
        elif v is True:
            self.keyword(b"true")
        elif v is False:
            self.keyword(b"false")
        elif isinstance(v, int):
            self.integer(v)
        elif isinstance(v, Real):
            self.real(v)
        elif isinstance(v, Name):
            self.name(v)
        elif isinstance(v, Str):
            self.string(v)
        elif isinstance(v, (bytes, bytearray)):
            self.string(Str(bytes(v)))
        elif isinstance(v, Ref):
            self.integer(v.num)
            self.integer(v.gen)
            self.keyword(b"R")
        elif isinstance(v, (list, tuple)):
            self.sep_delim()
            self.raw(b"[")
            for x in v:
                self.value(x)
            self.sep_delim()
            self.raw(b"]")
        elif isinstance(v, dict):
            self.sep_delim()
            start = self.pos()
            self.raw(b"<<")
            self.cuts.append(start + 1)
            for k, x in v.items():
                self.name(k if isinstance(k, Name) else Name(k))
                self.value(x)
            self.sep_delim()
            start = self.pos()
            self.raw(b">>")
            self.cuts.append(start + 1)
        elif isinstance(v, RawToken):
            self.sep_regular()
            self.raw(v.b, regular_end=True)
        elif isinstance(v, float):
            self.real(Real(fmt_float(v)))
        elif isinstance(v, Fraction):
            if v.denominator == 1:
                self.integer(v.numerator)
            else:
                txt = ("%.12f" % float(v)).rstrip("0")
                assert Fraction(txt) == v, v
                self.real(Real(txt))
        else:
            raise TypeError("cannot serialise %r" % (v,))
        return self


def fmt_float(x):
    s = "%.10f" % x
    if "." in s:
        s = s.rstrip("0")
        if s.endswith("."):
            s += "0"
    return s


def ser(v, tape=None, wild=False):
    return bytes(Ser(tape, wild).value(v).out)


# --------------------------------------------------------------------------------
# file level
# --------------------------------------------------------------------------------
class FileWriter:
    """Assembles a PDF file revision by revision; records offsets of everything it writes."""

    def __init__(self, header=b"%PDF-1.7\n%\xe2\xe3\xcf\xd3\n", tape=None, wild=False, eol=b"\n"):
        self.buf = bytearray(header)
        self.tape = tape
        self.wild = wild
        self.eol = eol
        self.offsets = {}  # num -> (offset, gen) of the latest definition written so far
        self.cuts = []
        self.marks = {}  # named offsets: 'startxref', 'xref', ...
        self.last_startxref = None

    def pos(self):
        return len(self.buf)

    def pad(self, n):
        """Comment padding (keeps the file conformant, moves absolute offsets)."""
        while n > 0:
            k = min(n, 70)
            if k == 1:
                self.buf += b"\n"
            else:
                self.buf += b"%" + b"p" * (k - 2) + b"\n"
            n -= k

    def add_object(self, num, value, gen=0, wild=None):
        off = self.pos()
        wild = self.wild if wild is None else wild
        tight = getattr(self, "obj_tight", False) and isinstance(value, (dict, list, Stream, Str, Name))
        # (obj_tight: no white space between "obj" and a value that begins with a delimiter: 1 0 obj<<...>>)
        self.buf += b"%d %d obj" % (num, gen) + (b"" if tight else self.eol)
        if isinstance(value, Stream):
            s = Ser(self.tape, wild, base=self.pos())
            s.value(value.dict)
            self.buf += s.out
            self.cuts += s.cuts
            kpos = self.pos()
            self.buf += self.eol + b"stream" + value.eol
            self.cuts += list(range(kpos + 1, self.pos()))
            self.marks.setdefault("stream_data", []).append((num, self.pos(), len(value.raw)))
            self.buf += value.raw
            epos = self.pos()
            self.buf += value.pre_end + b"endstream" + self.eol
            self.cuts += [epos, epos + 1, epos + 2, epos + 5]
        else:
            s = Ser(self.tape, wild, base=self.pos())
            s.value(value)
            self.buf += s.out
            self.cuts += s.cuts
            self.buf += self.eol
        epos = self.pos()
        self.buf += b"endobj" + self.eol
        self.cuts += [epos + 3]
        self.offsets[num] = (off, gen)
        return off

    def xref_table(self, entries, trailer, entry_eol=b" \n", split=None):
        """Classic table for ``entries`` {num: (off, gen)}; ``split``: list of subsection starts."""
        off = self.pos()
        self.marks["xref"] = off
        self.buf += b"xref" + self.eol
        nums = sorted(entries)
        # contiguous runs, optionally split further
        runs = []
        for n in nums:
            if runs and runs[-1][-1] == n - 1 and not (split and n in split):
                runs[-1].append(n)
            else:
                runs.append([n])
        self.marks["xref_entries"] = []
        for run in runs:
            hpos = self.pos()
            self.buf += b"%d %d" % (run[0], len(run)) + self.eol
            self.marks.setdefault("xref_headers", []).append(hpos)
            for n in run:
                o, g = entries[n]
                epos = self.pos()
                if o is None:
                    self.buf += b"%010d %05d f" % (0, g) + entry_eol
                else:
                    self.buf += b"%010d %05d n" % (o, g) + entry_eol
                self.marks["xref_entries"].append((n, epos))
                self.cuts += [epos + 5, epos + 19]
        tpos = self.pos()
        self.marks["trailer"] = tpos
        self.buf += b"trailer" + self.eol
        s = Ser(None, False, base=self.pos())
        s.value(trailer)
        self.buf += s.out + self.eol
        self._startxref(off)
        return off

    def _startxref(self, off):
        spos = self.pos()
        self.marks["startxref"] = spos
        self.buf += b"startxref" + self.eol
        npos = self.pos()
        self.marks["startxref_num"] = npos
        self.buf += b"%d" % off + self.eol
        epos = self.pos()
        self.buf += b"%%EOF" + self.eol
        self.cuts += list(range(spos + 1, epos + 3))
        self.last_startxref = off

    def xref_stream(self, num, entries, trailer, widths=(1, 4, 2), index_split=None, flt=True, with_startxref=True, dict_hook=None):
        """Cross-reference stream object ``num`` covering ``entries``.

        entries: {num: ('n', off, gen) | ('c', objstm num, index) | ('f', next, gen)}
        The stream's own entry is added by this function.
        """
        import zlib

        off = self.pos()
        entries = dict(entries)
        entries[num] = ("n", off, 0)
        nums = sorted(entries)
        runs = []
        for n in nums:
            if runs and runs[-1][-1] == n - 1 and not (index_split and n in index_split):
                runs[-1].append(n)
            else:
                runs.append([n])
        if self.tape is not None and len(runs) > 1 and self.tape.coin(30, 100, "xrefstm.shuffle"):
            # subsections need not be listed in ascending order: entries follow the order of /Index
            runs = self.tape.shuffle(runs, "xrefstm.order")
        w1, w2, w3 = widths
        data = bytearray()
        for n in [m for run in runs for m in run]:
            kind, a, b = entries[n]
            t = {"f": 0, "n": 1, "c": 2}[kind]
            if w1:
                data += t.to_bytes(w1, "big")
            else:
                assert t == 1, "zero-width type field defaults to type 1"
            data += a.to_bytes(w2, "big")
            if w3:
                data += b.to_bytes(w3, "big")
            else:
                assert b == 0
        index = []
        for run in runs:
            index += [run[0], len(run)]
        d = {b"Type": Name(b"XRef"), b"W": [w1, w2, w3]}
        size = trailer.get(b"Size", nums[-1] + 1)
        if index != [0, size]:
            d[b"Index"] = index
        elif self.tape is not None and self.tape.coin(50, 100, "xrefstm.index"):
            d[b"Index"] = index
        d.update(trailer)
        raw = bytes(data)
        if flt:
            raw = zlib.compress(raw)
            d[b"Filter"] = Name(b"FlateDecode")
        d[b"Length"] = len(raw)
        if dict_hook is not None:
            import copy

            d = copy.deepcopy(d)  # values may be shared with the caller's trailer
            dict_hook("xref", d)
        self.marks["xref"] = off
        self.add_object(num, Stream(d, raw), wild=False)
        if with_startxref:
            self._startxref(off)
        return off

    def getvalue(self):
        return bytes(self.buf)


def object_stream(members, ser_factory=None, extra_ws=b" ", first_pad=0):
    """Build (dict, decoded payload) of an object stream holding ``members`` [(num, value)]."""
    bodies = []
    for num, v in members:
        s = ser_factory() if ser_factory else Ser()
        s.value(v)
        bodies.append(bytes(s.out))
    offs = []
    pos = 0
    for b in bodies:
        offs.append(pos)
        pos += len(b) + len(extra_ws)
    header = b" ".join(b"%d %d" % (num, o) for (num, _), o in zip(members, offs)) + b"\n" + b" " * first_pad
    payload = header + extra_ws.join(bodies) + (extra_ws if bodies else b"")
    d = {b"Type": Name(b"ObjStm"), b"N": len(members), b"First": len(header)}
    return d, payload
