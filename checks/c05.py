"""C05 - text model: each glyph gets the position, advance and state PDF assigns (DESIGN 5/C05).

Workload : operator programs over q Q cm BT ET Tc Tw Tz TL Tf Ts Td TD Tm T* Tj TJ ' " g rg k cs sc scn and Do of
           self-contained form XObjects (own Matrix/BBox/Resources, nesting <= 3), dyadic operands, Type1/TrueType/
           Type3/Identity-H fonts with tape-chosen widths.
Schedule : the program is cut into a /Contents array at tape-chosen white-space positions (incl. empty streams) and
           read under a chunk schedule (PDFContentParser is a refill seam of its own); operand faults (one operator
           gets a missing or ill-typed operand); font cache eviction.
Oracle   : exact-rational reference machine (sim.gfx.Machine): per glyph matrix, adv, bbox, size, fontname, fill
           colour, in showing order; split == unsplit; faulted program == program with that operator deleted.
"""
from fractions import Fraction as F
from io import BytesIO

from sim import core, docs, gfx, seams
from sim.core import Dev, Outcome
from sim.gfx import Op
from sim.oracle import where
from sim.pdfwriter import Name, Ref, Stream

ID = "C05"
LEVEL = "exploration"
RULE = (
    "a case = one generated program (2..60 operators) with 1..3 fonts and 0..2 (nested) form XObjects on a page; it is "
    "executed by the real interpreter (PDFPageAggregator, laparams=None) unsplit and split into a tape-chosen /Contents "
    "array, each under a drawn chunk schedule, and (35% of cases) once more with one operand fault; every LTChar is "
    "compared with the reference machine. distinct = distinct (program text, split, schedule, fault); non-trivial = "
    "program shows >= 2 glyphs and uses at least one of cm/Tm/Tc/Tw/Tz/Ts/TJ/form."
)
COMPONENTS_REAL = ["pdfminer.pdfinterp (PDFPageInterpreter, PDFContentParser, PDFResourceManager)", "pdfminer.pdfdevice.PDFTextDevice", "pdfminer.converter.PDFPageAggregator", "pdfminer.layout.LTChar", "pdfminer.pdffont", "pdfminer.pdfdocument/pdfpage"]
COMPONENTS_STUB = ["file object: io.BytesIO over SimWriter output", "BUFSIZ chunk seam (content parser refills)", "font cache eviction wrapper"]
ASSUMPTIONS = [
    "operands are dyadic rationals; comparison tolerance 1e-6 relative+absolute",
    "forms are self-contained (set their own font and colour): inheritance into a form is ISO 8.10, not 9.3-9.4",
    "cs is always followed by sc/scn before a glyph is shown (initial colour after cs is ISO 8.6.8, outside the cited sections)",
    "ill-typed operands: name/array/dict/non-numeric string where a number is required; name/array/dict where a string is required; the compound operators ' and \" only get missing-operand faults",
    "q/Q do not occur inside BT..ET (not allowed by ISO 8.2)",
]
PROBES = ["metric table in two spellings (W2)", "metric table in two spellings (W)", "resource-less form shared by two callers", "page interpreted twice", "split into >1 streams", "empty stream piece", "cut inside TJ array", "form invoked", "nested form", "form without own Resources", "operand fault: missing", "operand fault: ill-typed", "several operand faults in one program", "type3 font", "type0 font", "Tc nonzero across show operators", "double-quote operator", "TD sets leading", "q/Q restores text state", "text after form", "font cache eviction", "page origin non-zero"]
TIERS = {
    "quick": {"batches": 16, "runs": 1200, "budget_s": 90},
    "thorough": {"batches": 128, "runs": 2500, "budget_s": 900},
}
DETERMINISM_SLICE = 4
_ready = False


def setup():
    global _ready, PDFResourceManager, PDFPageInterpreter, PDFPageAggregator, PDFPage, LTChar, LTFigure
    if _ready:
        return
    core.import_sut()
    from pdfminer.converter import PDFPageAggregator
    from pdfminer.layout import LTChar, LTFigure
    from pdfminer.pdfinterp import PDFPageInterpreter, PDFResourceManager
    from pdfminer.pdfpage import PDFPage

    seams.install_chunk_seam()
    seams.EVICT.install()
    _ready = True


# ------------------------------------------------------------------------------------ generator
def dy(t, lo, hi, den=4, label="num"):
    return F(t.rint(lo * den, hi * den, label), den)


MATS = [
    (1, 0, 0, 1, 0, 0), (2, 0, 0, 2, 0, 0), (F(1, 2), 0, 0, F(1, 2), 10, 20), (0, 1, -1, 0, 100, 0), (0, -1, 1, 0, 0, 200),
    (-1, 0, 0, -1, 300, 300), (1, 0, F(1, 2), 1, 0, 0), (1, F(1, 4), 0, 1, 5, 5), (3, 0, 0, F(1, 2), -7, 11), (1, 0, 0, -1, 0, 400),
]


def gen_matrix(t, label):
    m = tuple(F(x) for x in t.pick(MATS, label))
    if t.coin(40, 100, label + ".tr"):
        m = m[:4] + (dy(t, -100, 300, 2, label + ".e"), dy(t, -100, 300, 2, label + ".f"))
    return m


def gen_string(t, font):
    n = t.rint(1, 5, "str.len")
    if font.bpc == 2:
        pool2 = [28, 30, 31, 32, 33, 36, 40, 300] + ([65535, 65534, 65000] if getattr(font, "top", False) else [])
        return b"".join(t.pick(pool2, "str.cid").to_bytes(2, "big") for _ in range(n))
    pool = b"ABCDE A" if font.kind != "type3" else b"ABCDE"
    if font.kind == "type1" and font.first <= 32:
        pool = b"ABC  DE"
    if font.kind == "type1" and t.coin(30, 100, "str.edge"):
        # codes at the ends of the width table and just outside it (those take the missing width)
        last = getattr(font, "last", 127)
        pool = bytes(pool) + bytes({font.first, last, min(255, last + 1), max(0, font.first - 1), 255, 128})
    return bytes(t.pick(pool, "str.ch") for _ in range(n))


def gen_color(t, prog):
    k = t.draw(5, "col.kind")
    c = lambda: F(t.rint(0, 8, "col.v"), 8)  # noqa: E731
    if t.coin(25, 100, "col.stroking"):
        # the stroking colour is a colour of its own (glyphs are filled): it changes nothing a glyph reports
        ks = t.draw(4, "col.skind")
        if ks == 0:
            prog.append(Op("G", [c()]))
        elif ks == 1:
            prog.append(Op("RG", [c(), c(), c()]))
        elif ks == 2:
            prog.append(Op("K", [c(), c(), c(), c()]))
        else:
            cs = t.pick(["DeviceGray", "DeviceRGB", "DeviceCMYK"], "col.scs")
            prog.append(Op("CS", [Name(cs.encode())]))
            prog.append(Op(t.pick(["SC", "SCN"], "col.SC"), [c() for _ in range(gfx.NCOMP[cs])]))
        return
    if k == 0:
        prog.append(Op("g", [c()]))
    elif k == 1:
        prog.append(Op("rg", [c(), c(), c()]))
    elif k == 2:
        prog.append(Op("k", [c(), c(), c(), c()]))
    else:
        cs = t.pick(["DeviceGray", "DeviceRGB", "DeviceCMYK"], "col.cs")
        prog.append(Op("cs", [Name(cs.encode())]))
        prog.append(Op(t.pick(["sc", "scn"], "col.sc"), [c() for _ in range(gfx.NCOMP[cs])]))


def gen_program(t, ctx, fonts, formnames, is_form=False):
    prog = []
    fnames = sorted(fonts)
    cur_font = [None]
    fstack = []
    if is_form:
        gen_color(t, prog)
    nblocks = t.rint(1, 4, "prog.blocks")
    for _ in range(nblocks):
        kind = t.weighted([6, 2, 2, 1, 2], "block.kind")
        if kind == 0:
            prog.append(Op("BT"))
            if cur_font[0] is None or t.coin(30, 100, "tf.again"):
                fn = t.pick(fnames, "tf.name")
                prog.append(Op("Tf", [Name(fn), t.pick([F(8), F(10), F(12), F(1), F(1, 2), F(24)], "tf.size")]))
                cur_font[0] = fn
            for _ in range(t.rint(1, 8, "text.n")):
                k = t.weighted([10, 6, 3, 3, 2, 2, 2, 2, 4, 3, 3, 2, 2, 2, 3], "text.op")
                font = fonts[cur_font[0]]
                if k == 0:
                    prog.append(Op("Tj", [gen_string(t, font)]))
                elif k == 1:
                    arr = []
                    for _ in range(t.rint(1, 5, "tj.n")):
                        if t.coin(45, 100, "tj.num"):
                            arr.append(F(t.pick([-250, -125, 125, 100, -1000, 500, 40], "tj.adj")))
                        else:
                            arr.append(gen_string(t, font))
                    prog.append(Op("TJ", [arr]))
                elif k == 2:
                    prog.append(Op("'", [gen_string(t, font)]))
                elif k == 3:
                    prog.append(Op('"', [dy(t, -2, 4, 4, "dq.aw"), dy(t, -1, 3, 4, "dq.ac"), gen_string(t, font)]))
                    ctx.probe("double-quote operator")
                elif k == 4:
                    prog.append(Op("Tc", [dy(t, -1, 3, 4, "tc")]))
                elif k == 5:
                    prog.append(Op("Tw", [dy(t, -2, 6, 4, "tw")]))
                elif k == 6:
                    prog.append(Op("Tz", [t.pick([F(100), F(50), F(200), F(75), F(150), F(25)], "tz")]))
                elif k == 7:
                    prog.append(Op("TL", [dy(t, -10, 20, 2, "tl")]))
                elif k == 8:
                    prog.append(Op("Td", [dy(t, -50, 200, 2, "td.x"), dy(t, -50, 200, 2, "td.y")]))
                elif k == 9:
                    prog.append(Op("TD", [dy(t, -50, 200, 2, "td.x"), dy(t, -30, 30, 2, "td.y")]))
                    ctx.probe("TD sets leading")
                elif k == 10:
                    prog.append(Op("Tm", list(gen_matrix(t, "tm"))))
                elif k == 11:
                    prog.append(Op("T*"))
                elif k == 12:
                    prog.append(Op("Ts", [dy(t, -5, 5, 2, "ts")]))
                elif k == 13:
                    gen_color(t, prog)
                else:
                    fn = t.pick(fnames, "tf.name")
                    prog.append(Op("Tf", [Name(fn), t.pick([F(8), F(10), F(12), F(1), F(1, 2), F(24)], "tf.size")]))
                    cur_font[0] = fn
            prog.append(Op("ET"))
        elif kind == 1:
            prog.append(Op("q"))
            fstack.append(cur_font[0])
        elif kind == 2:
            prog.append(Op("Q"))
            if fstack:
                cur_font[0] = fstack.pop()
                ctx.probe("q/Q restores text state")
        elif kind == 3:
            prog.append(Op("cm", list(gen_matrix(t, "cm"))))
        else:
            if formnames:
                prog.append(Op("Do", [Name(t.pick(sorted(formnames), "do.name"))]))
                ctx.probe("form invoked")
            else:
                gen_color(t, prog)
    return prog


def gen_fonts(t, ctx, base, n=None):
    fonts = {}
    for i in range(n or t.rint(1, 3, "nfonts")):
        f = gfx.make_font(t, base + i)
        if f.kind in ("type3", "type0"):
            ctx.probe(f.kind + " font")
        fonts[b"F%d" % (i + 1)] = f
    return fonts


def gen_forms(t, ctx, depth, counter, parent_fonts=None, shared=None):
    """shared: a list that receives (name of a resource-less form, name of a sibling form that invokes the same form
    object under other resources) - the page then invokes both."""
    forms = {}
    if depth >= 3:
        return forms
    nores = []
    for i in range(t.weighted([5, 3, 2], "nforms")):
        sub = gen_forms(t, ctx, depth + 1, counter) if t.coin(35, 100, "form.nest") else {}
        if sub:
            ctx.probe("nested form")
        counter[0] += 10
        if parent_fonts is not None and not sub and t.coin(30, 100, "form.nores"):
            # no /Resources entry: the form uses its caller's resources (fonts under the caller's names)
            prog = gen_program(t, ctx, parent_fonts, set(), is_form=True)
            forms[b"Fm%d" % (i + 1)] = gfx.Form(gen_matrix(t, "form.matrix"), (F(0), F(0), F(200), F(200)), None, prog, {})
            nores.append(b"Fm%d" % (i + 1))
            ctx.probe("form without own Resources")
            continue
        if nores and shared is not None and t.coin(60, 100, "form.share"):
            # this form binds the page's font names to other fonts and invokes the same resource-less form object:
            # one object, two callers, two sets of resources
            fonts = gen_fonts(t, ctx, counter[0], n=len(parent_fonts))
            sub = dict(sub)
            sub[b"FmS"] = forms[nores[-1]]
            prog = gen_program(t, ctx, fonts, set(sub), is_form=True) + [Op("Do", [Name(b"FmS")])]
            shared.append((nores[-1], b"Fm%d" % (i + 1)))
            ctx.probe("resource-less form shared by two callers")
        else:
            fonts = gen_fonts(t, ctx, counter[0])
            prog = gen_program(t, ctx, fonts, set(sub), is_form=True)
        forms[b"Fm%d" % (i + 1)] = gfx.Form(gen_matrix(t, "form.matrix"), (F(0), F(0), F(200), F(200)), fonts, prog, sub)
    return forms


# ------------------------------------------------------------------------------------ document
def build_document(t, fonts, forms, pieces, origin):
    objects = {}
    nxt = [10]

    def alloc(v):
        nxt[0] += 1
        objects[nxt[0]] = v
        return Ref(nxt[0], 0)

    def indirect_numbers(lst):
        return [indirect_numbers(x) if isinstance(x, list) else (alloc(x) if isinstance(x, int) and t.coin(20, 100, "font.wref") else x) for x in lst]

    def font_res(fs):
        d = {}
        for name, f in fs.items():
            obj = f.obj
            if t.coin(20, 100, "font.wrefs"):
                # some numbers of the width tables are indirect objects (any value of an array may be)
                import copy

                obj = copy.deepcopy(obj)
                if b"Widths" in obj:
                    obj[b"Widths"] = indirect_numbers(obj[b"Widths"])
                for dsc in obj.get(b"DescendantFonts", []):
                    if isinstance(dsc, dict) and b"W" in dsc:
                        dsc[b"W"] = indirect_numbers(dsc[b"W"])
            d[name] = alloc(obj) if t.coin(70, 100, "font.indirect") else obj
        return d

    made = {}

    def form_obj(fm):
        if id(fm) not in made:
            made[id(fm)] = form_obj1(fm)
        return made[id(fm)]

    def form_obj1(fm):
        data, _ = gfx.serialise(fm.prog, t)
        d = {b"Type": Name(b"XObject"), b"Subtype": Name(b"Form"), b"BBox": list(fm.bbox), b"Matrix": list(fm.matrix)}
        if fm.fonts is not None:
            res = {b"Font": font_res(fm.fonts)}
            if fm.forms:
                res[b"XObject"] = {n: form_obj(s) for n, s in fm.forms.items()}
            d[b"Resources"] = res
        st = docs.content_stream(data, flate=t.coin(30, 100, "form.flate"), extra=d)
        return alloc(st)

    res = {b"Font": font_res(fonts)}
    if forms:
        res[b"XObject"] = {n: form_obj(fm) for n, fm in forms.items()}
    contents = [alloc(docs.content_stream(p, flate=t.coin(25, 100, "content.flate"))) for p in pieces]
    objects[1] = {b"Type": Name(b"Catalog"), b"Pages": Ref(2, 0)}
    objects[2] = {b"Type": Name(b"Pages"), b"Kids": [Ref(3, 0)], b"Count": 1}
    page = {b"Type": Name(b"Page"), b"Parent": Ref(2, 0), b"MediaBox": [origin[0], origin[1], origin[0] + 600, origin[1] + 800], b"Resources": res}
    page[b"Contents"] = contents[0] if len(contents) == 1 and t.coin(50, 100, "contents.single") else contents
    objects[3] = page
    return docs.build_pdf(objects, 1).getvalue()


def flatten(item, out):
    for x in item:
        if isinstance(x, LTChar):
            out.append(x)
        elif isinstance(x, LTFigure):
            flatten(x, out)
    return out


def interpret(data, pol, ev, caching=True, passes=1):
    """-> the glyphs of every pass over the page (same document, page and interpreter objects for all passes)."""
    seams.CHUNK.policy = pol
    seams.EVICT.set(ev)
    try:
        rm = PDFResourceManager(caching=caching)
        dev = PDFPageAggregator(rm, laparams=None)
        interp = PDFPageInterpreter(rm, dev)
        pages = list(PDFPage.get_pages(BytesIO(data)))
        out = []
        for _ in range(passes):
            interp.process_page(pages[0])
            out.append(flatten(dev.get_result(), []))
        return out
    finally:
        seams.CHUNK.policy = None
        seams.EVICT.set(None)


def metric_spellings(t, ctx, devs):
    """The width tables of a CID font have two spellings - `c [v1 v2 ...]` (consecutive CIDs from c) and `c1 c2 v` (a range) -
    for the horizontal /W (one number per CID) and the vertical /W2 (three numbers per CID).  The same table spelled in
    different ways is the same table: every glyph gets the same matrix, advance and box (a relation between two runs of
    the real code; no model of vertical writing is needed)."""
    vertical = t.coin(60, 100, "ms.vertical")
    c0 = t.pick([1, 30, 65, 300], "ms.c0")
    n = t.rint(2, 5, "ms.n")
    if vertical:
        vals = [(-125 * t.rint(2, 8, "ms.w1"), 125 * t.rint(1, 6, "ms.vx"), 40 * t.rint(10, 24, "ms.vy")) for _ in range(n)]
    else:
        vals = [(125 * t.rint(0, 8, "ms.w"),) for _ in range(n)]

    def spell(kind):
        out = []
        if kind == "list":
            out += [c0, [x for v in vals for x in v]]
        elif kind == "ranges":
            for i, v in enumerate(vals):
                out += [c0 + i, c0 + i] + list(v)
        elif kind == "lists":
            for i, v in enumerate(vals):
                out += [c0 + i, list(v)]
        else:  # first half as a list, the rest as one-CID ranges
            h = max(1, n // 2)
            out += [c0, [x for v in vals[:h] for x in v]]
            for i, v in enumerate(vals[h:]):
                out += [c0 + h + i, c0 + h + i] + list(v)
        return out

    kinds = ["list", t.pick(["ranges", "lists", "mixed"], "ms.other")]
    cids = [c0 + t.draw(n + 1, "ms.cid") for _ in range(t.rint(2, 6, "ms.len"))] + [c0 + n - 1]
    text = b"".join(c.to_bytes(2, "big") for c in cids)
    size = t.pick([10, 12, 7.5], "ms.size")
    content = b"BT /F1 %s Tf 100 700 Td <%s> Tj ET" % (docs.fmt_num(size), text.hex().encode())
    res = []
    for kind in kinds:
        fd = {b"Type": Name(b"FontDescriptor"), b"FontName": Name(b"Metrics"), b"Flags": 4, b"Ascent": 800, b"Descent": -200, b"FontBBox": [0, -200, 1000, 800], b"ItalicAngle": 0, b"CapHeight": 700, b"StemV": 80}
        desc = {b"Type": Name(b"Font"), b"Subtype": Name(b"CIDFontType2"), b"BaseFont": Name(b"Metrics"), b"CIDSystemInfo": {b"Registry": b"Adobe", b"Ordering": b"Identity", b"Supplement": 0}, b"FontDescriptor": fd, b"DW": 1000}
        if vertical:
            desc[b"DW2"] = [880, -1000]
            desc[b"W2"] = spell(kind)
        else:
            desc[b"W"] = spell(kind)
        font = {b"Type": Name(b"Font"), b"Subtype": Name(b"Type0"), b"BaseFont": Name(b"Metrics"), b"Encoding": Name(b"Identity-V" if vertical else b"Identity-H"), b"DescendantFonts": [desc]}
        objects = {1: {b"Type": Name(b"Catalog"), b"Pages": Ref(2, 0)}, 2: {b"Type": Name(b"Pages"), b"Kids": [Ref(3, 0)], b"Count": 1}, 3: {b"Type": Name(b"Page"), b"Parent": Ref(2, 0), b"MediaBox": [0, 0, 612, 792], b"Contents": Ref(4, 0), b"Resources": {b"Font": {b"F1": font}}}, 4: docs.content_stream(content)}
        pdf = docs.build_pdf(objects, 1).getvalue()
        try:
            chars = interpret(pdf, None, None)[0]
        except Exception as e:
            devs.append(Dev("C05:metric-spellings:raise:%s@%s" % (type(e).__name__, where(e)), "%r; %s spelled %r" % (e, "/W2" if vertical else "/W", spell(kind))))
            return
        res.append([(c.get_text(), tuple(c.matrix), c.adv, tuple(c.bbox)) for c in chars])
    ctx.probe("metric table in two spellings (%s)" % ("W2" if vertical else "W"))
    if res[0] != res[1]:
        k = next((i for i, (a, b) in enumerate(zip(res[0], res[1])) if a != b), min(len(res[0]), len(res[1])))
        devs.append(
            Dev(
                "C05:metric-spellings:%s" % ("W2" if vertical else "W"),
                "glyph #%d of <%s>: spelled %r it has (matrix, adv, bbox) = %r; spelled %r it has %r"
                % (k, text.hex(), spell(kinds[0]), res[0][k][1:] if k < len(res[0]) else None, spell(kinds[1]), res[1][k][1:] if k < len(res[1]) else None),
            )
        )


def close(a, b):
    return abs(float(a) - float(b)) <= 1e-6 * (1 + abs(float(b)))


def color_eq(m, r):
    if m is None:
        return r is None
    if isinstance(m, tuple):
        return isinstance(r, tuple) and len(r) == len(m) and all(close(x, y) for x, y in zip(r, m))
    return isinstance(r, (int, float)) and not isinstance(r, tuple) and close(r, m)


def compare(expected, chars, cfg, devs, tag):
    exp = [e[1] for e in expected if e[0] == "glyph"]
    if len(exp) != len(chars):
        devs.append(Dev("C05:%s:glyph-count" % tag, "%d glyphs reported, the text model shows %d; %s" % (len(chars), len(exp), cfg)))
        return
    for i, (e, c) in enumerate(zip(exp, chars)):
        bad = None
        if not all(close(x, y) for x, y in zip(c.matrix, e["matrix"])):
            bad = ("matrix", tuple(c.matrix), tuple(float(v) for v in e["matrix"]))
        elif not close(c.adv, e["adv"]):
            bad = ("adv", c.adv, float(e["adv"]))
        elif not all(close(x, y) for x, y in zip(c.bbox, e["bbox"])):
            bad = ("bbox", c.bbox, tuple(float(v) for v in e["bbox"]))
        elif not close(c.size, e["size"]):
            bad = ("size", c.size, float(e["size"]))
        elif c.fontname != e["fontname"]:
            bad = ("fontname", c.fontname, e["fontname"])
        elif not color_eq(e["ncolor"], c.graphicstate.ncolor):
            bad = ("fill-colour", c.graphicstate.ncolor, e["ncolor"])
        elif "ncs" in e and getattr(c.ncs, "name", None) != e["ncs"]:
            bad = ("fill-colour-space", getattr(c.ncs, "name", None), e["ncs"])
        elif e["kind"] == "type1" and (65 <= e["code"] < 91 or e.get("text")) and c.get_text() != (e.get("text") or chr(e["code"])):
            bad = ("text", c.get_text(), e.get("text") or chr(e["code"]))
        if bad:
            devs.append(Dev("C05:%s:wrong-%s" % (tag, bad[0]), "glyph #%d (code %d): %s = %r, text model gives %r; %s" % (i, e["code"], bad[0], bad[1], bad[2], cfg)))
            return


FAULTABLE_NUM = {"Tc", "Tw", "Tz", "TL", "Ts", "Td", "TD", "Tm", "cm", "g", "rg", "k"}
FAULTABLE_STR = {"Tj", "TJ"}
FAULTABLE_MISSING_ONLY = {"'", '"', "Tf"}


def inject_fault(t, ctx, prog):
    idx = [i for i, op in enumerate(prog) if op.name in FAULTABLE_NUM | FAULTABLE_STR | FAULTABLE_MISSING_ONLY]
    if not idx:
        return None
    i = t.pick(idx, "fault.op")
    op = prog[i]
    args = list(op.args)
    missing = op.name in FAULTABLE_MISSING_ONLY or t.coin(45, 100, "fault.missing")
    if op.name == "Tf" and not missing:
        missing = True
    if missing:
        del args[t.draw(len(args), "fault.which")]
        kind = "missing"
        ctx.probe("operand fault: missing")
    else:
        j = t.draw(len(args), "fault.which")
        if op.name in FAULTABLE_NUM:
            args[j] = t.pick([Name(b"X"), b"abc", [F(1)], {b"K": F(1)}], "fault.bad")
        else:
            args[j] = t.pick([Name(b"X"), {b"K": F(1)}] + ([[b"A"]] if op.name == "Tj" else [b"abc", F(5)]), "fault.bad")
        kind = "ill-typed"
        ctx.probe("operand fault: ill-typed")
    ctx.fault("operand-" + kind)
    faulted = prog[:i] + [Op(op.name, args)] + prog[i + 1 :]
    reference = prog[:i] + prog[i + 1 :]
    return faulted, reference, "%s operand of %r (operator #%d)" % (kind, op, i)


def inject_fault_pair(t, ctx, faulted, reference):
    """One more fault on an operator that is still intact in both programs (they differ only by deleted operators)."""
    intact = [op for op in reference if op.name in FAULTABLE_NUM | FAULTABLE_STR | FAULTABLE_MISSING_ONLY and any(o is op for o in faulted)]
    if not intact:
        return None
    target = t.pick(intact, "fault2.op")
    fi = next(i for i, o in enumerate(faulted) if o is target)
    ri = next(i for i, o in enumerate(reference) if o is target)
    args = list(target.args)
    if not args:
        return None
    del args[t.draw(len(args), "fault2.which")]
    ctx.fault("operand-missing")
    return faulted[:fi] + [Op(target.name, args)] + faulted[fi + 1 :], reference[:ri] + reference[ri + 1 :], "missing operand of %r" % (target,)


def run(tape, ctx, item=None):
    t = tape
    devs = []
    counter = [0]
    fonts = gen_fonts(t, ctx, 0)
    shared = []
    forms = gen_forms(t, ctx, 1, counter, parent_fonts=fonts, shared=shared)
    prog = gen_program(t, ctx, fonts, set(forms))
    for a, b in shared:
        # both callers of the shared form are invoked, in either order
        prog += [Op("Do", [Name(x)]) for x in ((a, b) if t.coin(50, 100, "share.order") else (b, a))]
    origin = (0, 0) if t.coin(60, 100, "origin0") else (t.rint(-50, 100, "ox"), t.rint(-50, 100, "oy"))
    if origin != (0, 0):
        ctx.probe("page origin non-zero")
    ctm0 = (F(1), F(0), F(0), F(1), F(-origin[0]), F(-origin[1]))
    names = [op.name for op in prog]
    if "Do" in names and any(n in ("Tj", "TJ", "'", '"') for n in names[names.index("Do") :]):
        ctx.probe("text after form")
    scen = []
    variants = [("program", prog, prog, None)]
    if t.coin(35, 100, "fault"):
        f = inject_fault(t, ctx, prog)
        if f:
            faulted, reference, fdesc = f
            # sometimes two or three faulty operators in one program: each must still be a no-op of its own
            # (operands left behind by one must not feed another)
            for _ in range(t.weighted([6, 3, 1], "fault.more")):
                g = inject_fault_pair(t, ctx, faulted, reference)
                if g:
                    faulted, reference, fdesc = g[0], g[1], fdesc + " + " + g[2]
                    ctx.probe("several operand faults in one program")
            variants.append(("faulted", faulted, reference, fdesc))
    nglyph = 0
    for tag, real_prog, ref_prog, fdesc in variants:
        try:
            expected = gfx.Machine(fonts, forms).run(ref_prog, ctm=ctm0)
        except Exception as e:
            raise core.HarnessError("reference machine failed: %r on %r" % (e, ref_prog))
        nglyph = max(nglyph, sum(1 for e in expected if e[0] == "glyph"))
        data, splits = gfx.serialise(real_prog, t)
        for split in (False, True):
            if split:
                pieces = gfx.split_stream(data, splits, t)
                if len(pieces) > 1:
                    ctx.probe("split into >1 streams")
                if any(not p for p in pieces):
                    ctx.probe("empty stream piece")
                off = 0
                for p in pieces[:-1]:
                    off += len(p)
                    if data[:off].count(b"[") > data[:off].count(b"]"):
                        ctx.probe("cut inside TJ array")
            else:
                pieces = [data]
            pdf = build_document(t, fonts, forms, pieces, origin)
            pol, pdesc = seams.draw_chunk_policy(t, None)
            ev = seams.draw_evict(t)
            ctx.seam("chunk")
            cfg = "%s%s; pieces=%r; chunk=%s; fonts=%s" % (tag, " [" + fdesc + "]" if fdesc else "", pieces, pdesc, {k.decode(): v.kind for k, v in fonts.items()})
            seams.EVICT.evictions = 0
            passes = 2 if t.coin(25, 100, "passes") else 1
            try:
                results = interpret(pdf, pol, ev, caching=not t.coin(20, 100, "fontcaching"), passes=passes)
            except Exception as e:
                devs.append(Dev("C05:%s:raise:%s@%s" % (tag, type(e).__name__, where(e)), "%r; %s" % (e, cfg)))
                continue
            if seams.EVICT.evictions:
                ctx.probe("font cache eviction")
            compare(expected, results[0], cfg, devs, tag if not split else tag + "-split")
            if passes == 2:
                # the page interpreted again with the same document, page and interpreter objects shows the same
                ctx.probe("page interpreted twice")
                compare(expected, results[1], cfg + "; second pass over the same page object", devs, tag + "-second-pass")
            scen.append((pieces, pdesc, fdesc))
    if item is None and t.coin(12, 100, "metric.spellings"):
        metric_spellings(t, ctx, devs)
    seen = {}
    for d in devs:
        seen.setdefault(d.sig, d)
    if any(op.name == "Tc" and op.args[0] != 0 for op in prog) and sum(1 for n in names if n in ("Tj", "TJ", "'", '"')) >= 2:
        ctx.probe("Tc nonzero across show operators")
    tape.note(scen)
    rich = any(n in ("cm", "Tm", "Tc", "Tw", "Tz", "Ts", "TJ", "Do") for n in names)
    sample = {"program": " ".join(repr(op).strip() for op in prog)[:600], "fonts": {k.decode(): v.kind for k, v in fonts.items()}, "forms": sorted(k.decode() for k in forms), "variants": [v[0] + (": " + v[3] if v[3] else "") for v in variants], "glyphs": nglyph}
    return Outcome(list(seen.values()), scen=repr(scen), nontrivial=nglyph >= 2 and rich, sample=sample)


def jobs(tier, seed):
    import checks.c05 as me

    return core.std_jobs(me, tier, seed)
