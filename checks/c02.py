"""C02 - cross-reference resolution: newest definition wins, in every physical form (DESIGN 5/C02).

History mode : a revision history (define/override sets) is appended revision by revision by the SimWriter,
               each revision in a tape-chosen physical form (classic table / xref stream / hybrid, objects direct
               or in object streams, EOL style, subsection splits, /W widths, /Index).  After *each* appended
               revision the reader is restarted on the file as it exists at that moment; getobj is called in a
               tape-chosen order with repeats, under a chunk schedule, caching flag and cache-eviction buggify.
               The same history is written twice in different physical forms.
Damage mode  : single-revision classic-table files with one injected fault in startxref / the xref table.
Oracle       : a map model objid -> value; object ids reported; catalog/info newest; (damage) every id still
               resolves and extract_text equals that of the undamaged file.
"""
from io import BytesIO

from sim import core, seams
from sim.core import Dev, Outcome
from sim.oracle import match, where
from sim.pdfwriter import FileWriter, Name, Real, Ref, Ser, Str, Stream, object_stream

ID = "C02"
LEVEL = "exploration"
RULE = (
    "a case = (history mode, 85%) one history of 1..5 revisions over sparse ids <= 60, written in two independent "
    "physical form assignments, the reader restarted after every revision of each (so every prefix is a checked state) "
    "with tape-chosen read order, chunk schedule, caching flag and eviction schedule; or (damage mode, 15%) one "
    "single-revision classic-table document with a text page and one fault in startxref or the xref table. "
    "distinct = distinct (file bytes, read order, schedule) tuples; non-trivial = history has >= 2 revisions with at "
    "least one overridden id, or a fault was injected."
)
COMPONENTS_REAL = ["pdfminer.pdfdocument (find_xref, read_xref_from, PDFXRef, PDFXRefStream, PDFXRefFallback, getobj, _getobj_objstm)", "pdfminer.pdfparser", "pdfminer.psparser (revreadlines, nextline)", "pdfminer.high_level.extract_text (damage mode)"]
COMPONENTS_STUB = ["file object: io.BytesIO over SimWriter output", "BUFSIZ chunk seam", "cache eviction wrapper on PDFDocument.getobj", "producer: sim.pdfwriter"]
ASSUMPTIONS = [
    "ids are never freed: lookup is defined only for ids some revision defines",
    "container objects (object streams, xref streams) are defined objects and expected in get_objids()",
    "damage = startxref / xref keyword / subsection header / entry format / entry offset; trailer damage is outside 'cross-reference table'",
]
PROBES = ["object stream with more than 127 members", "object stream with 100 members", "history read under settings.STRICT", "chain of 260 to 1000 updates", "chain of more than 1000 updates", "free entry for a never-defined number", "cross-reference stream update without entries", "form:table", "form:stream", "form:hybrid", "packed objects", "override of packed by direct", "override of direct by packed", "multi-range Index", "nested getobj for indirect Length", "eviction happened", "caching off", "startxref boundary placed", "crlf eol", "cr-only eol", "bytes after %%EOF", "repository sample", "zero-width type field", "hybrid with free entries"]
TIERS = {
    "quick": {"batches": 16, "runs": 1200, "budget_s": 90},
    "thorough": {"batches": 128, "runs": 2500, "budget_s": 900},
}
DETERMINISM_SLICE = 6
_ready = False


def setup():
    global _ready, PDFDocument, PDFParser, PDFObjectNotFound, extract_text, PDFStream
    if _ready:
        return
    core.import_sut()
    from pdfminer.high_level import extract_text
    from pdfminer.pdfdocument import PDFDocument
    from pdfminer.pdfparser import PDFParser
    from pdfminer.pdftypes import PDFObjectNotFound, PDFStream

    seams.install_chunk_seam()
    seams.EVICT.install()
    _ready = True


# ---------------------------------------------------------------------------------
# history generation (logical)
# ---------------------------------------------------------------------------------
def gen_scalar(t):
    k = t.draw(7, "v.kind")
    if k == 0:
        return t.rint(-1000, 100000, "v.int")
    if k == 1:
        return Real("%d.%d" % (t.draw(100, "v.r"), t.draw(100, "v.f")))
    if k == 2:
        return Name(t.pick([b"A", b"Name", b"x y", b"Type", b"n#"], "v.name"))
    if k == 3:
        return Str(bytes(t.pick(b"ab()\\\n\r 0\xff", "v.sb") for _ in range(t.draw(6, "v.sl"))))
    if k == 4:
        return t.coin(50)
    if k == 5:
        return None
    return Ref(t.rint(1, 70, "v.ref"), 0)


def gen_value(t, depth=2):
    k = t.draw(10, "val.kind")
    if depth > 0 and k < 3:
        return [gen_value(t, depth - 1) for _ in range(t.draw(4, "val.n"))]
    if depth > 0 and k < 7:
        d = {}
        for _ in range(t.draw(4, "val.dn")):
            d[t.pick([b"A", b"B", b"Kids", b"V", b"Length1", b"N"], "val.key")] = gen_value(t, depth - 1)
        return d
    return gen_scalar(t)


def gen_history(t):
    """-> list of revisions; revision = dict(defs={id: value|('stream', dict, raw, lenid)}, root=id, info=id|None)"""
    nrev = t.weighted([3, 4, 3, 2, 1], "nrev") + 1
    ids_pool = t.shuffle(list(range(1, 61)), "ids")[: t.rint(3, 24, "nids")]
    model = {}
    revs = []
    root = None
    info = None
    marker = 0
    for r in range(nrev):
        defs = {}
        avail = [i for i in ids_pool if i not in model]
        n_new = t.rint(1 if r else 2, max(1, min(8, len(avail))), "rev.new") if avail else 0
        new = avail[:n_new]
        over = [i for i in sorted(model) if i <= 60 and t.coin(35, 100, "rev.over")] if r else []
        for i in new + over:
            if t.coin(18, 100, "def.stream"):
                raw = bytes(t.pick(b"ab\n\r e", "s.b") for _ in range(t.draw(30, "s.len")))
                defs[i] = ("stream", {b"K": t.draw(100, "s.k")}, raw, None)
            else:
                defs[i] = gen_value(t)
        # indirect Length for some streams: a fresh id defined in this revision
        for i in list(defs):
            if isinstance(defs[i], tuple) and t.coin(40, 100, "s.indirectlen"):
                fresh = [x for x in range(61, 75) if x not in model and x not in defs]
                if fresh:
                    lid = fresh[0]
                    defs[lid] = len(defs[i][2])
                    defs[i] = ("stream", defs[i][1], defs[i][2], lid)
        # catalog: defined in the first revision, sometimes overridden or moved later
        if root is None or t.coin(30, 100, "rev.newroot"):
            if root is None or t.coin(50, 100, "rev.rootmove"):
                cand = [x for x in range(75, 90) if x not in model and x not in defs]
                root = cand[0]
            marker += 1
            defs[root] = {b"Type": Name(b"Catalog"), b"Marker": marker}
        if t.coin(40, 100, "rev.info"):
            if info is None or t.coin(50, 100, "rev.infomove"):
                cand = [x for x in range(90, 100) if x not in model and x not in defs]
                info = cand[0]
            defs[info] = {b"Producer": Str(b"rev%d" % r)}
        for i, v in defs.items():
            model[i] = v
        revs.append({"defs": defs, "root": root, "info": info})
    return revs


# ---------------------------------------------------------------------------------
# physical writing
# ---------------------------------------------------------------------------------
def to_obj(v):
    if isinstance(v, tuple):
        _, d, raw, lid = v
        dd = dict(d)
        dd[b"Length"] = Ref(lid, 0) if lid is not None else len(raw)
        return Stream(dd, raw)
    return v


def write_history(t, revs, ctx, forms=None):
    """Write all revisions; returns (list of prefixes bytes, list of container id sets, cuts, description)."""
    eol = t.pick([b"\n", b"\n", b"\r\n", b"\r"], "eol")
    if eol == b"\r\n":
        ctx.probe("crlf eol")
    if eol == b"\r":
        ctx.probe("cr-only eol")
    fw = FileWriter(tape=t, wild=False, eol=eol)
    prefixes = []
    containers = set()
    container_list = []
    prev = None
    used_ids = set()
    for rv in revs:
        used_ids |= set(rv["defs"])
    next_container = [100]

    def fresh_id():
        next_container[0] += 1
        return next_container[0]

    desc = []
    size = 0
    gens = {}
    where_defined = {}  # id -> 'direct' | 'packed' (latest)
    for ri, rv in enumerate(revs):
        form = t.pick(["table", "stream", "hybrid"], "form") if forms is None else forms[ri]
        ctx.probe("form:" + form)
        defs = rv["defs"]
        packed, direct = [], []
        for i, v in defs.items():
            # streams cannot be packed; a bare reference as a member is not packed either (known finding
            # C01:streamparser-toplevel-ref would take down the whole object stream)
            can_pack = form != "table" and not isinstance(v, (tuple, Ref))
            if can_pack and t.coin(55, 100, "pack"):
                packed.append(i)
            else:
                direct.append(i)
        for i in packed:
            if where_defined.get(i) == "direct":
                ctx.probe("override of direct by packed")
            where_defined[i] = "packed"
        for i in direct:
            if where_defined.get(i) == "packed":
                ctx.probe("override of packed by direct")
            where_defined[i] = "direct"
        entries = {}  # id -> ('n', off, gen) | ('c', stmid, index)
        if t.coin(30, 100, "pad"):
            fw.pad(t.rint(1, 200, "padn"))
        for i in t.shuffle(direct, "direct.order"):
            g = t.pick([0, 0, 0, 1, 3], "gen") if form != "hybrid" else 0
            off = fw.add_object(i, to_obj(defs[i]), gen=g)
            entries[i] = ("n", off, g)
            if t.coin(10, 100, "pad2"):
                fw.pad(t.rint(1, 60, "pad2n"))
        if packed:
            ctx.probe("packed objects", len(packed))
            groups = [packed] if len(packed) < 3 or t.coin(50, 100, "split.objstm") else [packed[: len(packed) // 2], packed[len(packed) // 2 :]]
            for grp in groups:
                sid = fresh_id()
                import zlib

                d, payload = object_stream([(i, defs[i]) for i in grp], extra_ws=t.pick([b" ", b"\n", b"\r\n"], "objstm.ws"))
                if t.coin(60, 100, "objstm.flate"):
                    raw = zlib.compress(payload)
                    d[b"Filter"] = Name(b"FlateDecode")
                else:
                    raw = payload
                d[b"Length"] = len(raw)
                off = fw.add_object(sid, Stream(d, raw))
                entries[sid] = ("n", off, 0)
                containers.add(sid)
                for idx, i in enumerate(grp):
                    entries[i] = ("c", sid, idx)
        size = max([size] + [i + 1 for i in entries])
        trailer = {b"Size": size, b"Root": Ref(rv["root"], 0)}
        if rv["info"] is not None:
            trailer[b"Info"] = Ref(rv["info"], 0)
        if prev is not None:
            trailer[b"Prev"] = prev
        if form == "table":
            ent = {i: (e[1], e[2]) for i, e in entries.items()}
            if ri == 0 or t.coin(30, 100, "free0"):
                ent[0] = (None, 65535)
            free_fillers(t, ctx, ent, used_ids)
            split = set(i for i in ent if t.coin(15, 100, "split"))
            prev = fw.xref_table(ent, trailer, entry_eol=t.pick([b" \n", b" \r", b"\r\n"], "entry.eol"), split=split)
        elif form == "stream":
            xid = fresh_id()
            containers.add(xid)
            size = max(size, xid + 1)
            trailer[b"Size"] = size
            prev = write_xref_stream(t, fw, xid, entries, trailer, ctx, free0=(ri == 0))
        else:
            # hybrid: classic table for direct objects (+ optional 'f' entries hiding the compressed ones),
            # XRefStm for the compressed objects
            xid = fresh_id()
            containers.add(xid)
            size = max(size, xid + 1)
            trailer[b"Size"] = size
            comp = {i: e for i, e in entries.items() if e[0] == "c"}
            ent = {i: (e[1], e[2]) for i, e in entries.items() if e[0] == "n"}
            if ri == 0 or t.coin(30, 100, "free0"):
                ent[0] = (None, 65535)
            if comp and t.coin(50, 100, "hybrid.free"):
                for i in comp:
                    ent[i] = (None, 0)
                ctx.probe("hybrid with free entries")
            xoff = write_xref_stream(t, fw, xid, comp, {b"Size": size}, ctx, free0=False, with_startxref=False)
            trailer[b"XRefStm"] = xoff
            split = set(i for i in ent if t.coin(15, 100, "split"))
            prev = fw.xref_table(ent, trailer, entry_eol=t.pick([b" \n", b" \r", b"\r\n"], "entry.eol"), split=split)
        desc.append("%s(direct=%s packed=%s)" % (form, sorted(direct), sorted(packed)))
        if t.coin(6, 100, "empty.update"):
            # an incremental update that changes nothing: a cross-reference stream with /Index [] and no entries
            xid = fresh_id()
            size = max(size, xid + 1)
            d = {b"Type": Name(b"XRef"), b"W": [1, 2, 1], b"Index": [], b"Size": size, b"Root": Ref(rv["root"], 0), b"Prev": prev, b"Length": 0}
            if rv["info"] is not None:
                d[b"Info"] = Ref(rv["info"], 0)
            off = fw.pos()
            fw.add_object(xid, Stream(d, b""), wild=False)
            fw._startxref(off)
            prev = off
            desc[-1] += "+empty-xrefstm-update"
            ctx.probe("cross-reference stream update without entries")
        if t.coin(20, 100, "tail.junk"):
            # white space or a comment after %%EOF (and before the next update)
            fw.buf += t.pick([b"\n", b"\r\n\r\n", b"% trailing comment\n", b"   \n"], "tail.bytes")
            ctx.probe("bytes after %%EOF")
        prefixes.append(fw.getvalue())
        container_list.append(set(containers))
    return prefixes, container_list, list(fw.cuts), desc


def free_fillers(t, ctx, ent, used_ids):
    """Free entries for object numbers that no revision ever defines, placed directly in front of an entry in use (so
    that a subsection may begin with a free entry, also at object 1): they define nothing and hide nothing."""
    for i in sorted(ent):
        j = i - 1
        if j >= 1 and j not in used_ids and j not in ent and j < 100 and t.coin(12, 100, "free.filler"):
            ent[j] = (None, t.pick([0, 1, 65535, 65535], "free.filler.gen"))
            ctx.probe("free entry for a never-defined number")


def write_xref_stream(t, fw, xid, entries, trailer, ctx, free0, with_startxref=True):
    ents = dict(entries)
    if free0:
        ents[0] = ("f", 0, 65535)
    maxoff = fw.pos() + 10
    only_type1 = all(e[0] == "n" for e in ents.values())
    w1 = t.pick([1, 1, 2, 0], "w1") if only_type1 else t.pick([1, 1, 2], "w1")
    if w1 == 0:
        ctx.probe("zero-width type field")
    need2 = max(1, (max([maxoff] + [e[1] for e in ents.values()]).bit_length() + 7) // 8)
    w2 = max(need2, t.pick([2, 3, 4], "w2"))
    maxg = max([0] + [e[2] for e in ents.values()])
    w3 = t.pick([0, 1, 2], "w3") if maxg == 0 else max(2 if maxg > 255 else 1, t.pick([1, 2], "w3"))
    split = set(i for i in ents if t.coin(20, 100, "index.split"))
    nums = sorted(list(ents) + [xid])
    nruns = 1 + sum(1 for a, b in zip(nums, nums[1:]) if b != a + 1 or b in split)
    if nruns > 1:
        ctx.probe("multi-range Index")
    return fw.xref_stream(xid, ents, trailer, widths=(w1, w2, w3), index_split=split, flt=t.coin(60, 100, "xrefstm.flate"), with_startxref=with_startxref)


# ---------------------------------------------------------------------------------
# reading and judging
# ---------------------------------------------------------------------------------
def expected_state(revs, upto):
    model = {}
    for rv in revs[: upto + 1]:
        model.update(rv["defs"])
    return model, revs[upto]["root"], revs[upto]["info"]


def stream_expect(m):
    return m.raw


def check_state(t, data, model, root, info, containers, cuts, ctx, devs, tag):
    pol, pdesc = seams.draw_chunk_policy(t, [c for c in cuts if c < len(data)] or None)
    if "placed" in pdesc:
        ctx.probe("startxref boundary placed")
    caching = not t.coin(30, 100, "caching")
    if not caching:
        ctx.probe("caching off")
    ev = seams.draw_evict(t)
    ctx.seam("chunk")
    ctx.seam("evict", 1 if ev else 0)
    order = t.shuffle(sorted(model), "read.order")
    order += [t.pick(order, "read.repeat") for _ in range(t.draw(1 + len(order), "read.nrep"))]
    missing = [i for i in (t.rint(1, 120, "read.missing") for _ in range(2)) if i not in model and i not in containers]
    order += missing
    order = t.shuffle(order, "read.order2")
    seams.CHUNK.policy = pol
    seams.EVICT.set(ev)
    seams.EVICT.evictions = 0
    cfg = "%s chunk=%s caching=%s evict=%s" % (tag, pdesc, caching, "yes" if ev else "no")
    try:
        try:
            doc = PDFDocument(PDFParser(BytesIO(data)), caching=caching)
        except Exception as e:
            devs.append(Dev("C02:open:raise:%s@%s" % (type(e).__name__, where(e)), "%r; %s" % (e, cfg)))
            return cfg
        for i in order:
            try:
                got = doc.getobj(i)
            except PDFObjectNotFound:
                if i in model:
                    devs.append(Dev("C02:getobj:not-found", "id %d is defined but getobj raised PDFObjectNotFound; %s" % (i, cfg)))
                continue
            except Exception as e:
                devs.append(Dev("C02:getobj:raise:%s@%s" % (type(e).__name__, where(e)), "id %d: %r; %s" % (i, e, cfg)))
                continue
            if i not in model:
                devs.append(Dev("C02:getobj:found-undefined", "id %d is not defined but getobj returned %r; %s" % (i, got, cfg)))
                continue
            mism = []
            match(to_obj(model[i]), got, None, "obj%d" % i, mism, stream_expect)
            for path, k, detail, _ in mism:
                devs.append(Dev("C02:getobj:wrong-%s" % k, "at %s: %s; %s" % (path, detail, cfg)))
            if isinstance(model[i], tuple) and model[i][3] is not None:
                ctx.probe("nested getobj for indirect Length")
        # object ids reported
        try:
            reported = set()
            for x in doc.xrefs:
                reported |= set(x.get_objids())
            want = set(model) | set(containers)
            if reported != want:
                devs.append(Dev("C02:objids", "get_objids union = %r, defined = %r (missing %r, extra %r); %s" % (sorted(reported), sorted(want), sorted(want - reported), sorted(reported - want), cfg)))
        except Exception as e:
            devs.append(Dev("C02:objids:raise:%s@%s" % (type(e).__name__, where(e)), "%r; %s" % (e, cfg)))
        # catalog and info from the newest revision
        mism = []
        match(model[root], doc.catalog, None, "catalog", mism)
        if mism:
            devs.append(Dev("C02:catalog-not-newest", "%s; %s" % (mism[0][2], cfg)))
        if info is not None:
            mism = []
            if not doc.info:
                devs.append(Dev("C02:info-missing", cfg))
            else:
                match(model[info], doc.info[0], None, "info", mism)
                if mism:
                    devs.append(Dev("C02:info-not-newest", "%s; %s" % (mism[0][2], cfg)))
        if seams.EVICT.evictions:
            ctx.probe("eviction happened", seams.EVICT.evictions)
    finally:
        seams.CHUNK.policy = None
        seams.EVICT.set(None)
    return cfg


# ---------------------------------------------------------------------------------
# damage mode
# ---------------------------------------------------------------------------------
def text_document(t):
    """Single-revision classic-table document with one text page. -> (FileWriter, model dict id->value)"""
    words = [b"Hello", b"World", b"xref", b"damage", b"42"]
    txt = b" ".join(t.pick(words, "word") for _ in range(t.rint(1, 4, "nwords")))
    content = b"BT /F1 12 Tf 72 700 Td (" + txt + b") Tj ET"
    model = {
        1: {b"Type": Name(b"Catalog"), b"Pages": Ref(2, 0)},
        2: {b"Type": Name(b"Pages"), b"Kids": [Ref(3, 0)], b"Count": 1},
        3: {b"Type": Name(b"Page"), b"Parent": Ref(2, 0), b"MediaBox": [0, 0, 612, 792], b"Contents": Ref(4, 0), b"Resources": {b"Font": {b"F1": Ref(5, 0)}}},
        4: ("stream", {}, content, None),
        5: {b"Type": Name(b"Font"), b"Subtype": Name(b"Type1"), b"BaseFont": Name(b"Helvetica")},
    }
    for i in range(6, 6 + t.draw(4, "extra")):
        model[i] = gen_value(t, 1)
    if t.coin(50, 100, "fakecue"):
        # lines that look like object headers, inside a stream payload and inside a multi-line string, placed
        # after the real objects: a body scan must not take them for definitions
        k = t.pick(sorted(model), "fakecue.id")
        nxt = max(model) + 1
        model[nxt] = ("stream", {}, b"data\n%d 0 obj\n<< /Fake true >>\nendobj\nmore" % k, None)
        model[nxt + 1] = {b"Note": Str(b"line one\n%d 0 obj\n(fake)\nendobj\n" % t.pick(sorted(model), "fakecue.id2"))}
    return model


def write_single(t, model, eol=b"\n"):
    fw = FileWriter(eol=eol)
    fw.obj_tight = t.coin(30, 100, "obj.tight")  # 1 0 obj<<...>>: no white space behind "obj" where none is needed
    for i in sorted(model):
        fw.add_object(i, to_obj(model[i]))
        if t.coin(20, 100, "dpad"):
            fw.pad(t.rint(1, 90, "dpadn"))
    ent = {i: fw.offsets[i] for i in model}
    ent[0] = (None, 65535)
    fw.xref_table(ent, {b"Size": max(model) + 1, b"Root": Ref(1, 0)})
    return fw


FAULTS = ["startxref-off-by", "startxref-zero", "startxref-beyond-eof", "startxref-mid-object", "startxref-non-numeric", "startxref-line-removed", "xref-keyword", "subsection-header", "subsection-count", "entry-format", "entry-offset"]


def damage(t, fw, model):
    data = bytearray(fw.getvalue())
    kind = t.pick(FAULTS, "fault")
    m = fw.marks
    info = {"kind": kind}
    ns, ne = m["startxref_num"], data.index(b"\n", m["startxref_num"])

    def setnum(b):
        data[ns:ne] = b

    if kind == "startxref-off-by":
        k = t.pick([1, -1, 2, -3, 7, -40, 100], "off")
        setnum(b"%d" % max(0, m["xref"] + k))
    elif kind == "startxref-zero":
        setnum(b"0")
    elif kind == "startxref-beyond-eof":
        setnum(b"%d" % (len(data) + t.rint(0, 5000, "beyond")))
    elif kind == "startxref-mid-object":
        i = t.pick(sorted(model), "mid.obj")
        setnum(b"%d" % (fw.offsets[i][0] + t.rint(1, 12, "mid.off")))
    elif kind == "startxref-non-numeric":
        setnum(t.pick([b"abc", b"12x", b"-5", b"(1)", b""], "nonnum"))
    elif kind == "startxref-line-removed":
        del data[m["startxref"] : ne + 1]
    elif kind == "xref-keyword":
        data[m["xref"] : m["xref"] + 4] = t.pick([b"xrfe", b"XREF", b"    ", b"xre"], "kw")
    elif kind == "subsection-header":
        h = m["xref_headers"][0]
        e = data.index(b"\n", h)
        data[h:e] = t.pick([b"0", b"a b", b"0 1 2", b"zero six"], "hdr")
    elif kind == "subsection-count":
        h = m["xref_headers"][0]
        e = data.index(b"\n", h)
        first, cnt = data[h:e].split()
        data[h:e] = first + b" " + (b"%d" % (int(cnt) + t.pick([1, 5, -1, 1000], "cnt")))
    elif kind == "entry-format":
        n, epos = t.pick(m["xref_entries"], "ent")
        info["id"] = n
        form = t.pick(["short", "nofields", "letters"], "entfmt")
        info["form"] = form
        # only the 18 characters of the entry are rewritten; its end-of-line stays
        if form == "short":
            data[epos : epos + 18] = b"0000000000 00000  "
        elif form == "nofields":
            data[epos : epos + 18] = b"00000000000000000n"
        else:
            data[epos : epos + 10] = b"00000abcde"
    else:  # entry-offset
        cand = [(n, e) for n, e in m["xref_entries"] if n != 0]
        n, epos = t.pick(cand, "ent")
        info["id"] = n
        delta = t.pick([3, -2, 1, 17, 400], "entoff")
        data[epos : epos + 10] = b"%010d" % max(0, fw.offsets[n][0] + delta)
    return bytes(data), info


def run_damage(t, ctx, devs):
    model = text_document(t)
    fw = write_single(t, model, eol=t.pick([b"\n", b"\r\n"], "eol"))
    good = fw.getvalue()
    bad, info = damage(t, fw, model)
    ctx.fault(info["kind"])
    pol, pdesc = seams.draw_chunk_policy(t, None)
    cfg = "fault=%r chunk=%s" % (info, pdesc)
    seams.CHUNK.policy = pol
    local = []
    try:
        try:
            want_text = extract_text(BytesIO(good))
        except Exception as e:
            devs.append(Dev("C02:damage:baseline-raise", "undamaged document failed: %r" % (e,)))
            return cfg, bad
        try:
            doc = PDFDocument(PDFParser(BytesIO(bad)))
        except Exception as e:
            local.append(("open", "open raised %s@%s: %r" % (type(e).__name__, where(e), e), None))
            doc = None
        if doc is not None:
            for i in sorted(model):
                try:
                    got = doc.getobj(i)
                except Exception as e:
                    local.append(("getobj", "id %d: %s %r" % (i, type(e).__name__, e), i))
                    continue
                mism = []

                def expect(mm):
                    return mm.raw

                match(to_obj(model[i]), got, None, "obj%d" % i, mism, expect)
                for path, k, detail, _ in mism:
                    if k == "stream-data" and isinstance(got, PDFStream):
                        # body-scan mode delimits by 'endstream': one trailing EOL may be included
                        raw = to_obj(model[i]).raw
                        if got.get_data() in (raw + b"\n", raw + b"\r\n", raw + b"\r"):
                            continue
                    local.append(("wrong", "at %s: %s" % (path, detail), i))
            try:
                got_text = extract_text(BytesIO(bad))
                if got_text != want_text:
                    local.append(("text", "extract_text %r != undamaged %r" % (got_text, want_text), None))
            except Exception as e:
                local.append(("text", "extract_text raised %s@%s: %r" % (type(e).__name__, where(e), e), None))
    finally:
        seams.CHUNK.policy = None
    for what, detail, oid in local:
        if info["kind"] == "entry-offset" and what in ("getobj", "wrong") and oid == info.get("id"):
            devs.append(Dev("C02:damage:bad-entry-offset-no-rescan", "%s; %s" % (detail, cfg)))
        elif info["kind"] == "entry-offset" and what == "text" and info.get("id") in (1, 2, 3, 4, 5):
            devs.append(Dev("C02:damage:bad-entry-offset-no-rescan", "%s; %s" % (detail, cfg)))
        elif info.get("form") == "letters" and ((what in ("getobj", "wrong") and oid == info.get("id")) or (what == "text" and info.get("id") in (1, 2, 3, 4, 5))):
            devs.append(Dev("C02:damage:unparsable-entry-dropped-no-rescan", "%s; %s" % (detail, cfg)))
        else:
            devs.append(Dev("C02:damage:%s:%s" % (info["kind"], what), "%s; %s" % (detail, cfg)))
    return cfg, bad


SAMPLE_FILES = ["simple1.pdf", "simple2.pdf", "simple3.pdf", "jo.pdf", "contrib/issue-886-xref-stream-widths.pdf", "contrib/issue-1057-tiff-predictor.pdf", "contrib/matplotlib.pdf", "contrib/issue-00369-excel.pdf", "encryption/base.pdf", "contrib/pdf-with-jbig2.pdf", "sampleOneByteIdentityEncode.pdf"]


def run_sample(t, ctx, devs):
    """Files written by real-world producers: every object must read the same under every schedule."""
    import os

    from sim.oracle import canon

    rel = t.pick(SAMPLE_FILES, "sample")
    try:
        with open(os.path.join(core.REPO, "samples", rel), "rb") as fh:
            data = fh.read()
    except OSError:
        return "sample missing", b""
    ctx.probe("repository sample")

    def read_all(pol, caching, ev, order_seed):
        seams.CHUNK.policy = pol
        seams.EVICT.set(ev)
        try:
            doc = PDFDocument(PDFParser(BytesIO(data)), caching=caching)
            ids = sorted({i for x in doc.xrefs for i in x.get_objids()})
            out = {}
            order = list(ids)
            if order_seed is not None:
                order = order_seed(order)
            for i in order:
                try:
                    o = doc.getobj(i)
                    if isinstance(o, PDFStream):
                        # (rawdata is dropped once a stream has been decoded: compare dictionary and decoded data)
                        try:
                            c = ("S", canon(o.attrs), o.get_data())
                        except Exception as e:
                            c = ("S", canon(o.attrs), "raise:" + type(e).__name__)
                    else:
                        c = canon(o)
                    out[i] = c
                except Exception as e:
                    out[i] = "raise:%s" % type(e).__name__
            return out, repr(doc.catalog)[:200]
        finally:
            seams.CHUNK.policy = None
            seams.EVICT.set(None)

    try:
        ref = read_all(None, True, None, None)
    except Exception as e:
        devs.append(Dev("C02:sample:open:raise:%s" % type(e).__name__, "%s: %r" % (rel, e)))
        return "sample %s" % rel, data
    cfgs = []
    for _ in range(2):
        pol, pdesc = seams.draw_chunk_policy(t, None, allow_default=False)
        caching = not t.coin(40, 100, "caching")
        ev = seams.draw_evict(t)
        cfg = "sample %s chunk=%s caching=%s evict=%s" % (rel, pdesc, caching, bool(ev))
        cfgs.append(cfg)
        ctx.seam("chunk")
        try:
            got = read_all(pol, caching, ev, lambda ids: t.shuffle(ids, "sample.order"))
        except Exception as e:
            devs.append(Dev("C02:sample:raise:%s@%s" % (type(e).__name__, where(e)), "%r; %s" % (e, cfg)))
            continue
        if got[1] != ref[1]:
            devs.append(Dev("C02:sample:catalog-differs", "%s vs %s; %s" % (got[1], ref[1], cfg)))
        bad = [i for i in ref[0] if got[0].get(i) != ref[0][i]]
        if bad or set(got[0]) != set(ref[0]):
            i = bad[0] if bad else sorted(set(got[0]) ^ set(ref[0]))[0]
            devs.append(Dev("C02:sample:schedule-dependent", "object %d reads %r, default schedule gives %r; %s" % (i, str(got[0].get(i))[:200], str(ref[0].get(i))[:200], cfg)))
    return "; ".join(cfgs), data


def run_big_objstm(t, ctx):
    """Object streams with hundreds of members behind cross-reference streams with narrow fields (an index or offset
    beyond 127, 255, 32767 is still that index or offset), in two revisions so that every member has an older
    definition to fall back to by mistake."""
    n = t.pick([100, 128, 129, 200, 256, 257, 400], "big.n")
    w2 = t.pick([2, 3, 4], "big.w2")
    w3 = 1 if n <= 256 else 2
    ctx.probe("object stream with more than 127 members" if n > 127 else "object stream with 100 members")
    fw = FileWriter(tape=None, wild=False)
    ids = list(range(3, 3 + n))
    model = {1: {b"Type": Name(b"Catalog"), b"Marker": 1}}
    off1 = fw.add_object(1, model[1])
    ent = {0: (None, 65535), 1: (off1, 0)}
    for i in ids:
        ent[i] = (fw.add_object(i, {b"Old": i}), 0)
    prev = fw.xref_table(ent, {b"Size": ids[-1] + 1, b"Root": Ref(1, 0)})
    # second revision: every object redefined inside one object stream
    for i in ids:
        model[i] = {b"New": i, b"S": Str(b"m%d" % i)}
    sid = ids[-1] + 1
    d, payload = object_stream([(i, model[i]) for i in ids])
    d[b"Length"] = len(payload)
    soff = fw.add_object(sid, Stream(d, payload))
    entries = {sid: ("n", soff, 0)}
    for k, i in enumerate(ids):
        entries[i] = ("c", sid, k)
    xid = sid + 1
    if max(soff, fw.pos() + 64).bit_length() > 8 * w2:
        w2 = 4
    fw.xref_stream(xid, entries, {b"Size": xid + 1, b"Root": Ref(1, 0), b"Prev": prev}, widths=(1, w2, w3), flt=t.coin(50, 100, "big.flate"))
    data = fw.getvalue()
    devs = []
    for caching in (True, False):
        try:
            doc = PDFDocument(PDFParser(BytesIO(data)), caching=caching)
            order = t.shuffle(ids, "big.order")[:60] + [ids[0], ids[-1], ids[min(127, n - 1)], ids[min(128, n - 1)]]
            for i in order:
                mism = []
                match(model[i], doc.getobj(i), {}, "obj%d" % i, mism)
                for path, k, detail, known in mism[:1]:
                    devs.append(Dev("C02:getobj:wrong-%s" % k, "at %s: %s; member %d of an object stream with %d members, /W [1 %d %d] caching=%s" % (path, detail, i - 3, n, w2, w3, caching)))
        except Exception as e:
            devs.append(Dev("C02:bigobjstm:raise:%s@%s" % (type(e).__name__, where(e)), "%r; object stream with %d members, /W [1 %d %d] caching=%s" % (e, n, w2, w3, caching)))
    seen = {}
    for dv in devs:
        seen.setdefault(dv.sig, dv)
    t.note((n, w2, w3))
    return Outcome(list(seen.values()), scen=repr((n, w2, w3)), nontrivial=True, sample={"mode": "big-object-stream", "members": n, "W": [1, w2, w3], "file_bytes": len(data)})


def run_long_chain(t, ctx):
    """Hundreds to over a thousand incremental updates, each redefining a few of a handful of objects, in classic and
    stream form: the newest definition of every object still wins, and none is lost."""
    n = t.pick([260, 300, 520, 1100, 1500], "chain.n")
    ctx.probe("chain of %s updates" % ("more than 1000" if n > 1000 else "260 to 1000"))
    fw = FileWriter(tape=None, wild=False)
    model = {1: {b"Type": Name(b"Catalog"), b"Marker": 0}}
    ids = [3, 4, 5, 8]
    offs = {1: fw.add_object(1, model[1])}
    for i in ids:
        model[i] = {b"V": 0, b"Id": i}
        offs[i] = fw.add_object(i, model[i])
    prev = fw.xref_table({0: (None, 65535), **{i: (o, 0) for i, o in offs.items()}}, {b"Size": 9, b"Root": Ref(1, 0)})
    nid = 100
    forms = t.pick([("table",), ("stream",), ("table", "stream"), ("table", "table", "stream")], "chain.forms")
    for r in range(1, n + 1):
        chosen = [i for i in ids if (r * 7 + i) % 3 == 0] or [ids[r % len(ids)]]
        ent = {}
        for i in chosen:
            model[i] = {b"V": r, b"Id": i}
            ent[i] = fw.add_object(i, model[i])
        tr = {b"Size": nid + 2, b"Root": Ref(1, 0), b"Prev": prev}
        if forms[r % len(forms)] == "table":
            prev = fw.xref_table({i: (o, 0) for i, o in ent.items()}, tr)
        else:
            nid += 1
            prev = fw.xref_stream(nid, {i: ("n", o, 0) for i, o in ent.items()}, tr, flt=bool(r % 2))
    data = fw.getvalue()
    devs = []
    for caching in (True, False):
        try:
            doc = PDFDocument(PDFParser(BytesIO(data)), caching=caching)
            for i in [1] + ids:
                got = doc.getobj(i)
                mism = []
                match(model[i], got, {}, "obj%d" % i, mism)
                for path, k, detail, known in mism:
                    devs.append(Dev("C02:getobj:wrong-%s" % k, "at %s: %s; after %d incremental updates (forms %s) caching=%s" % (path, detail, n, "/".join(forms), caching)))
        except Exception as e:
            devs.append(Dev("C02:longchain:raise:%s@%s" % (type(e).__name__, where(e)), "%r; %d incremental updates (forms %s) caching=%s" % (e, n, "/".join(forms), caching)))
    seen = {}
    for d in devs:
        seen.setdefault(d.sig, d)
    t.note((n, forms))
    return Outcome(list(seen.values()), scen=repr((n, forms)), nontrivial=True, sample={"mode": "long-chain", "updates": n, "forms": forms, "file_bytes": len(data)})


def run(tape, ctx, item=None):
    t = tape
    devs = []
    if t.coin(8, 100, "mode.sample"):
        cfg, data = run_sample(t, ctx, devs)
        seen = {}
        for d in devs:
            seen.setdefault(d.sig, d)
        tape.note(cfg)
        return Outcome(list(seen.values()), scen=repr((len(data), cfg)), nontrivial=True, sample={"mode": "sample", "config": cfg})
    if t.coin(1, 300, "mode.longchain"):
        return run_long_chain(t, ctx)
    if t.coin(1, 250, "mode.bigobjstm"):
        return run_big_objstm(t, ctx)
    if t.coin(15, 100, "mode.damage"):
        cfg, bad = run_damage(t, ctx, devs)
        seen = {}
        for d in devs:
            seen.setdefault(d.sig, d)
        tape.note(cfg)
        return Outcome(list(seen.values()), scen=repr((bad, cfg)), nontrivial=True, sample={"mode": "damage", "config": cfg, "file_tail": repr(bad[-160:])})
    if t.coin(8, 100, "knob.strict"):
        # well-formed histories read the same under the library's strict setting
        from pdfminer import settings as _settings

        ctx.probe("history read under settings.STRICT")
        _settings.STRICT = True
        try:
            out = run_history(t, ctx, devs)
        finally:
            _settings.STRICT = False
        for d in out.devs:
            d.msg = "under settings.STRICT: " + d.msg
        return out
    return run_history(t, ctx, devs)


def run_history(t, ctx, devs):
    tape = t
    revs = gen_history(t)
    overridden = any(set(rv["defs"]) & set().union(*[set(p["defs"]) for p in revs[:k]]) for k, rv in enumerate(revs) if k)
    scen = []
    sample = None
    for variant in range(2):
        prefixes, container_list, cuts, desc = write_history(t, revs, ctx)
        for k, data in enumerate(prefixes):
            model, root, info = expected_state(revs, k)
            cfg = check_state(t, data, model, root, info, container_list[k], cuts, ctx, devs, "variant %d %s after revision %d/%d" % (variant, desc[: k + 1], k + 1, len(revs)))
            scen.append((len(data), cfg))
        if sample is None:
            sample = {"mode": "history", "revisions": [{"defines": sorted(rv["defs"]), "root": rv["root"], "info": rv["info"]} for rv in revs], "forms": desc, "file_bytes": len(prefixes[-1])}
        scen.append(prefixes[-1])
        if devs:
            break
    seen = {}
    for d in devs:
        seen.setdefault(d.sig, d)
    tape.note([s if not isinstance(s, bytes) else len(s) for s in scen])
    return Outcome(list(seen.values()), scen=repr(scen), nontrivial=len(revs) >= 2 and overridden, sample=sample)


def jobs(tier, seed):
    import checks.c02 as me

    return core.std_jobs(me, tier, seed)
