"""C13 - damaged input: errors stay in the library's family and work stays bounded (DESIGN 5/C13).

Fault space (finite, independent of VERIF_SEED): for every seed document of sim.seeds -
  * truncation at every byte offset;
  * for every dictionary value / array element: replacement by a value of each other type, removal of the key,
    stream<->dict swap of a referenced object; for every reference: redirect to the containing object, to a
    missing object, to an object whose value is a reference to itself, to a 2- or 3-object reference loop, and to a chain that
    runs into a loop it is not part of (rho shape);
  * for every stream: a flipped byte and a cut at each of <= 16 payload positions, wrong /Length (+1, -1, 0, huge).
    plus container, trailer and inline-image faults (see payload_faults).
Thorough enumerates all of it; quick runs all faults and the truncation points of two seeds (plus a stride of samples).
Every faulted document runs through extract_text, extract_pages (consumed) and extract_text_to_fp(xml) under the
step clock; documents of the seeds that hold images also through extract_text_to_fp(output_dir=scratch), i.e. the
image export (scratch directory per case, file size capped by RLIMIT_FSIZE).
Oracle: returns or raises a PSException subclass, within steps <= STEP_K * (len(bytes) + STEP_C); the export may also
answer with the documented "install Pillow" ImportError (Pillow is absent here) or hit the file-size cap, and the disk
space it really allocates must stay below OUT_K * (len(bytes) + STEP_C).
"""
import copy
import errno
import io
import resource

from sim import core, seams, seeds
from sim.core import Dev, Outcome
from sim.oracle import where
from sim.pdfwriter import Name, Real, Ref, Str, Stream
from sim.scratch import Scratch

ID = "C13"
LEVEL = "fault_enumeration"
RULE = (
    "a case = one seed document with one fault (site x kind, payload position x kind, or truncation offset), run "
    "through extract_text, extract_pages, extract_text_to_fp(xml), extract_text_to_fp(html) (all but truncations) and - for the seeds with images - the image export "
    "extract_text_to_fp(output_dir) under a step budget; the fault set is enumerated "
    "from the 12 seed documents of sim/seeds.py and does not depend on VERIF_SEED (quick: all faults, all truncation "
    "points of two seed documents, a stride of sample truncations; thorough: all). distinct = distinct faulted "
    "byte strings; non-trivial = the faulted bytes differ from the seed document."
)
COMPONENTS_REAL = ["all of pdfminer reachable from high_level.extract_text / extract_pages / extract_text_to_fp(xml) / extract_text_to_fp(html) / extract_text_to_fp(output_dir) / a page-by-page loop that continues after a failed page / extract_text under settings.STRICT incl. ImageWriter, BMPWriter, JBIG2 reader/writer, CCITT decoder", "zlib", "the real file system under a per-case scratch directory"]
COMPONENTS_STUB = ["Pillow is absent: export formats that need it answer with the documented ImportError", "file-size cap RLIMIT_FSIZE 64 MB (simulated full disk)", "file object: io.BytesIO", "step clock: sys.monitoring PY_START|JUMP on pdfminer code objects", "address-space cap RLIMIT_AS", "producer: sim.seeds / sim.pdfwriter"]
ASSUMPTIONS = [
    "documented exception family = subclasses of pdfminer.psexceptions.PSException (AssertionError is a violation)",
    "single faults only",
    "ImportError with pdfminer's own 'Could not import Pillow' text is the documented answer of the export when the optional dependency is missing, not a leak",
    "memory bound: the resident-set high-water mark of the worker may not rise by more than max(128 MB, 2000 x (len + 5000)) during one call (catches allocation inside C calls that the step clock cannot see)",
    "output bound: disk blocks allocated by the export <= 2000 x (len + 5000) bytes (Flate expands at most ~1032:1); holes of sparse files do not count",
    "work bound: steps <= STEP_K * (len + STEP_C) monitored events (constant set at 20x the largest ratio seen on the baseline enumeration (29))",
]
PROBES = ["outcome:returned", "outcome:PSException", "outcome:needs-Pillow", "outcome:file-size-limit", "truncation", "replace", "remove", "ref-loop", "payload"]
TIERS = {
    "quick": {"budget_s": 400, "stride": 1},
    "thorough": {"budget_s": 1500, "stride": 1},
}
EXHAUSTIVE = {"thorough": True}
DETERMINISM_SLICE = 6
ENUM_ONLY = True  # run() takes enumerated items only; the determinism self-test draws a fixed spread of them
STEP_K = 200
STEP_C = 5000
_ready = False
SEEDS = None


def setup():
    global _ready, extract_text, extract_pages, extract_text_to_fp, PSException, SEEDS, BASE
    if _ready:
        return
    core.import_sut()
    from pdfminer.high_level import extract_pages, extract_text, extract_text_to_fp
    from pdfminer.psexceptions import PSException

    seams.CLOCK.install()
    SEEDS = {s.name: s for s in seeds.all_seeds()}
    BASE = {name: s.base_writer().getvalue() for name, s in SEEDS.items()}
    try:
        resource.setrlimit(resource.RLIMIT_AS, (6 << 30, resource.RLIM_INFINITY))
        # exported files: a write beyond 64 MB fails with EFBIG (reported as an OSError leak) instead of filling the disk
        import signal

        signal.signal(signal.SIGXFSZ, signal.SIG_IGN)
        resource.setrlimit(resource.RLIMIT_FSIZE, (64 << 20, resource.RLIM_INFINITY))
    except (ValueError, OSError):
        pass
    _ready = True


# -------------------------------------------------------------------------------- fault enumeration
TYPES = ["int", "real", "string", "name", "array", "dict", "null", "bool"]
# beyond the statement's "value of another type": unusual values, also of the same type (extra coverage)
VARIANTS = {
    "int:0": 0,
    "int:-1": -1,
    "int:5000": 5000,
    "real:-0.5": Real("-0.5"),
    "name:u110000": Name(b"u110000"),
    "name:empty": Name(b""),
    "string:empty": Str(b""),
    "string:nul": Str(b"\x00\xff"),
    "array:empty": [],
    "dict:empty": {},
    "array:nested": [[[]]],
    "int:2^31-1": 2147483647,
    "int:10^8": 100000000,
    "int:10^6": 1000000,
    "string:numeral": Str(b"500"),
    "string:real-numeral": Str(b"-1.5"),
    "name:numeral": Name(b"12"),
    "real:overflow": Real("9" * 320 + ".5"),
}
SAMPLE = {"int": 7, "real": Real("2.5"), "string": Str(b"x"), "name": Name(b"Xq"), "array": [1, Name(b"A")], "dict": {b"K": 1}, "null": None, "bool": True}


def type_of(v, objects):
    if isinstance(v, Ref):
        return "ref"
    if v is None:
        return "null"
    if isinstance(v, bool):
        return "bool"
    if isinstance(v, int):
        return "int"
    if isinstance(v, Real) or isinstance(v, float) or type(v).__name__ == "Fraction":
        return "real" if not (type(v).__name__ == "Fraction" and v.denominator == 1) else "int"
    if isinstance(v, (Str, bytes)):
        return "string"
    if isinstance(v, Name):
        return "name"
    if isinstance(v, (list, tuple)):
        return "array"
    if isinstance(v, dict):
        return "dict"
    return "other"


def walk(v, path):
    if isinstance(v, dict):
        for k, x in v.items():
            yield path + [k.decode("latin-1")], x, "dict"
            yield from walk(x, path + [k.decode("latin-1")])
    elif isinstance(v, (list, tuple)):
        for i, x in enumerate(v):
            yield path + [i], x, "array"
            yield from walk(x, path + [i])


def structural_faults(seed):
    for oid in sorted(seed.objects):
        v = seed.objects[oid]
        root = v.dict if isinstance(v, Stream) else v
        for path, x, ckind in walk(root, []):
            if isinstance(v, Stream) and path == ["Length"]:
                continue  # /Length faults are payload faults
            ty = type_of(x, seed.objects)
            for u in TYPES:
                if u != ty:
                    yield ["replace", oid, path, u]
            for vname in VARIANTS:
                yield ["variant", oid, path, vname]
            if ckind == "dict":
                yield ["remove", oid, path]
            if ty in ("array", "dict"):
                # a direct container replaced by a reference to a container that contains itself
                yield ["ref", oid, path, "selfarray" if ty == "array" else "selfdict"]
            if ty == "ref":
                yield ["ref", oid, path, "self"]
                yield ["ref", oid, path, "missing"]
                yield ["ref", oid, path, "loop1"]
                yield ["ref", oid, path, "loop2"]
                yield ["ref", oid, path, "loop3"]
                yield ["ref", oid, path, "rho1"]
                yield ["ref", oid, path, "rho2"]
                yield ["ref", oid, path, "selfarray"]
                yield ["ref", oid, path, "selfdict"]
                target = seed.objects.get(x.num)
                if isinstance(target, Stream):
                    yield ["ref", oid, path, "stream->dict"]
                elif isinstance(target, dict):
                    yield ["ref", oid, path, "dict->stream"]


def payload_faults(seed):
    for oid in sorted(seed.objects):
        v = seed.objects[oid]
        if not isinstance(v, Stream):
            continue
        n = len(v.raw)
        pos = sorted(set(int(i * (n - 1) / 15) for i in range(16)) | set(range(min(n, 6)))) if n > 1 else ([0] if n else [])
        flt = v.dict.get(b"Filter")
        raw_format = flt is None or (isinstance(flt, Name) and flt.b in (b"JBIG2Decode", b"CCITTFaxDecode", b"DCTDecode"))
        dense = seed.roles.get(oid, "").startswith(DENSE_ROLES) and raw_format
        for p in pos:
            yield ["flip", oid, p]
        for mask in (0x10, 0x01, 0x40, 0x80):
            for p in pos:
                yield ["flip", oid, p, mask]
        if dense:
            # payloads that pdfminer parses as a binary or program format of their own: faults at every byte
            for p in range(n):
                if p not in pos:
                    yield ["flip", oid, p]
                    yield ["flip", oid, p, 0x01]
            for p in range(0, n, 3):
                if p not in pos:
                    yield ["cut", oid, p]
        for p in pos:
            yield ["cut", oid, p]
        for how in ("+1", "-1", "0", "huge"):
            yield ["length", oid, how]
    # content streams: every operand replaced by an operand of each other kind (a name for a string, a string for a number ...)
    for oid in sorted(seed.objects):
        v = seed.objects[oid]
        if isinstance(v, Stream) and b"Filter" not in v.dict and seed.roles.get(oid, "").split(":")[0] in ("ContentStream", "CharProc", "Form"):
            toks = content_tokens(v.raw)
            for i, (a, b, is_operand) in enumerate(toks):
                if is_operand:
                    for k in range(len(OPERAND_SAMPLES)):
                        yield ["cop", oid, i, k]
    # ToUnicode programs: the payload replaced by a CMap that is well-formed PostScript but says something extreme
    for oid in sorted(seed.objects):
        if isinstance(seed.objects[oid], Stream) and seed.roles.get(oid, "").startswith("ToUnicode"):
            for k in range(len(CMAP_PROGRAMS)):
                yield ["cmapprog", oid, k]
    # encrypted seeds: the faults above hit the plaintext (the writer encrypts afterwards); these hit the ciphertext
    if seed.encrypt is not None:
        for oid in sorted(seed.objects):
            if isinstance(seed.objects[oid], Stream):
                for k in (0, 1, 15, 16, 17, 31, 32, 33, -1, -15, -16, -17):
                    yield ["ecut", oid, k]
                for p in (0, 15, 16, 17, 31, -1, -16, -17):
                    yield ["eflip", oid, p, 0xFF]
                    yield ["eflip", oid, p, 0x01]
    # dictionaries of the streams the writer adds itself (object stream, cross-reference stream)
    for kind, d in sorted(seed.container_dicts().items()):
        for path, x, ckind in walk(d, []):
            if path == ["Length"]:
                continue
            ty = type_of(x, seed.objects)
            for u in TYPES:
                if u != ty:
                    yield ["cdict", kind, path, "replace", u]
            for vname in VARIANTS:
                yield ["cdict", kind, path, "variant", vname]
            if ckind == "dict":
                yield ["cdict", kind, path, "remove", ""]
        # entries a single-revision file does not have: /Prev and /XRefStm with every kind of value
        if kind in ("trailer", "xref"):
            for key in ("Prev", "XRefStm"):
                for u in TYPES:
                    yield ["cdict", kind, [key], "add", u]
                for vname in VARIANTS:
                    yield ["cdict", kind, [key], "addvariant", vname]
    # the tail of a container payload cut out of the file (later offsets go stale)
    for num, pos, n in seed.container_streams():
        for p in sorted(set(int(i * (n - 1) / 7) for i in range(8))) if n > 1 else []:
            yield ["ccut", num, p]
    # a trailer whose /XRefStm points at its own cross-reference table
    if seed.form == "table" and seed.encrypt is None:
        yield ["xrefstmloop", 0]
    # /Length given as a reference to the stream itself / a missing object / a reference loop
    for oid in sorted(seed.objects):
        if isinstance(seed.objects[oid], Stream):
            for how in ("self", "missing", "loop1"):
                yield ["lengthref", oid, how]
    # inline image dictionaries live inside content streams: every value replaced by a value of each other type
    for oid in sorted(seed.objects):
        v = seed.objects[oid]
        if isinstance(v, Stream) and b"Filter" not in v.dict and b" ID " in v.raw and b"BI " in v.raw:
            head = v.raw[v.raw.index(b"BI ") + 3 : v.raw.index(b" ID ")]
            toks = inline_tokens(head)
            for i in range(1, len(toks), 2):
                for u in ("int", "real", "string", "name", "array", "dict", "null", "bool", "array:empty", "remove"):
                    yield ["inline", oid, i, u]
    # a trailer whose /Prev points at its own cross-reference section
    if seed.form == "table" and seed.encrypt is None:
        yield ["prevloop", 0]
    # cross-reference entries that place the object stream inside the xref stream object and vice versa
    if seed.form == "stream" and not seed.flate_containers and len(seed.container_streams()) == 2:
        yield ["xrefcycle", 0]
    # streams the writer itself added (object streams, cross-reference streams): flipped payload bytes
    for num, pos, n in seed.container_streams():
        for p in sorted(set(int(i * (n - 1) / 47) for i in range(48))) if n > 1 else []:
            yield ["cflip", num, p, 0xFF]
            yield ["cflip", num, p, 0x01]


INLINE_SAMPLE = {"int": b"7", "real": b"2.5", "string": b"(x)", "name": b"/Xq", "array": b"[1 /A]", "dict": b"<</K 1>>", "null": b"null", "bool": b"true", "array:empty": b"[]"}


def inline_tokens(head):
    """Split the dictionary part of an inline image (between BI and ID) into top-level key / value tokens."""
    toks, depth, cur = [], 0, b""
    for part in head.split(b" "):
        if not part:
            continue
        cur = cur + b" " + part if cur else part
        depth += part.count(b"[") + part.count(b"<<") - part.count(b"]") - part.count(b">>")
        if depth == 0:
            toks.append(cur)
            cur = b""
    return toks


def set_path(root, path, fn):
    cur = root
    for p in path[:-1]:
        cur = cur[p.encode("latin-1")] if isinstance(p, str) else cur[p]
    last = path[-1]
    key = last.encode("latin-1") if isinstance(last, str) else last
    fn(cur, key)


class FaultyHandler:
    """The seed's encryptor with one object's ciphertext damaged after encryption (/Length follows the damage)."""

    def __init__(self, inner, f):
        self.inner, self.f = inner, f

    def __getattr__(self, name):
        return getattr(self.inner, name)

    def encrypt_value(self, num, gen, v):
        out = self.inner.encrypt_value(num, gen, v)
        if num == self.f[1] and isinstance(out, Stream):
            raw = bytearray(out.raw)
            if self.f[0] == "ecut":
                k = self.f[2]
                raw = raw[: max(0, k if k >= 0 else len(raw) + k)]
            elif raw:
                raw[self.f[2] % len(raw)] ^= self.f[3]
            d = dict(out.dict)
            d[b"Length"] = len(raw)
            out = Stream(d, bytes(raw), out.eol, out.pre_end)
        return out


def apply_fault(seed, f):
    """-> faulted bytes"""
    kind = f[0]
    if kind == "truncate":
        return BASE[seed.name][: f[1]]
    if kind == "cdict":
        _, ckind, path, how, arg = f

        def hook(k, d):
            if k != ckind:
                return
            if how == "replace":
                set_path(d, path, lambda c, key: c.__setitem__(key, copy.deepcopy(SAMPLE[arg])))
            elif how == "variant":
                set_path(d, path, lambda c, key: c.__setitem__(key, copy.deepcopy(VARIANTS[arg])))
            elif how in ("add", "addvariant"):
                d[path[0].encode()] = copy.deepcopy(SAMPLE[arg] if how == "add" else VARIANTS[arg])
            else:
                set_path(d, path, lambda c, key: c.__delitem__(key))

        return seed.build(None, hook)
    if kind in ("ecut", "eflip"):
        return seed.writer(encrypt=FaultyHandler(seed.encrypt, f)).getvalue()
    if kind == "ccut":
        b = bytearray(BASE[seed.name])
        (pos, n) = [(p, ln) for (num, p, ln) in seed.container_streams() if num == f[1]][0]
        del b[pos + f[2] : pos + n]
        return bytes(b)
    if kind == "xrefstmloop":
        data = seed.writer().getvalue()
        off = int(data[data.rindex(b"startxref") + 9 :].split()[0])
        te = dict(seed.trailer_extra or {})
        te[b"XRefStm"] = off
        from sim.docs import build_pdf

        return build_pdf(seed.objects, seed.root, info=seed.info, form=seed.form, trailer_extra=te).getvalue()
    if kind == "lengthref":
        objs = dict(seed.objects)
        st = copy.deepcopy(objs[f[1]])
        nxt = max(objs) + 1
        if f[2] == "self":
            st.dict[b"Length"] = Ref(f[1], 0)
        elif f[2] == "missing":
            st.dict[b"Length"] = Ref(9999, 0)
        else:
            objs[nxt] = Ref(nxt, 0)
            st.dict[b"Length"] = Ref(nxt, 0)
        objs[f[1]] = st
        return seed.build(objs)
    if kind == "prevloop":
        data = seed.writer().getvalue()
        off = int(data[data.rindex(b"startxref") + 9 :].split()[0])
        te = dict(seed.trailer_extra or {})
        te[b"Prev"] = off  # the section is written at the same offset: /Prev is part of the trailer after it
        from sim.docs import build_pdf

        return build_pdf(seed.objects, seed.root, info=seed.info, form=seed.form, trailer_extra=te).getvalue()
    if kind == "inline":
        objs = dict(seed.objects)
        st = copy.deepcopy(objs[f[1]])
        a, z = st.raw.index(b"BI ") + 3, st.raw.index(b" ID ")
        toks = inline_tokens(st.raw[a:z])
        if f[3] == "remove":
            del toks[f[2] - 1 : f[2] + 1]
        else:
            toks[f[2]] = INLINE_SAMPLE[f[3]]
        st.raw = st.raw[:a] + b" ".join(toks) + st.raw[z:]
        st.dict[b"Length"] = len(st.raw)
        objs[f[1]] = st
        return seed.build(objs)
    if kind == "xrefcycle":
        # entries are 1+3+2 bytes wide and the /Index is one contiguous run starting at 0 (checked below)
        b = bytearray(BASE[seed.name])
        (a_num, a_pos, a_len), (x_num, x_pos, x_len) = sorted(seed.container_streams())
        nent = x_len // 6
        if nent != x_num + 1:
            raise core.HarnessError("xrefcycle: unexpected cross-reference stream layout in %s" % seed.name)
        b[x_pos + 6 * a_num : x_pos + 6 * a_num + 6] = bytes((2,)) + x_num.to_bytes(3, "big") + (0).to_bytes(2, "big")
        b[x_pos + 6 * x_num : x_pos + 6 * x_num + 6] = bytes((2,)) + a_num.to_bytes(3, "big") + (0).to_bytes(2, "big")
        return bytes(b)
    if kind == "cflip":
        b = bytearray(BASE[seed.name])
        pos = [p for (n, p, ln) in seed.container_streams() if n == f[1]][0]
        b[pos + f[2]] ^= f[3]
        return bytes(b)
    objs = dict(seed.objects)
    oid = f[1]
    obj = copy.deepcopy(objs[oid])
    objs[oid] = obj
    if kind in ("replace", "variant", "remove", "ref"):
        root = obj.dict if isinstance(obj, Stream) else obj
        path = f[2]
        if kind == "replace":
            set_path(root, path, lambda c, k: c.__setitem__(k, copy.deepcopy(SAMPLE[f[3]])))
        elif kind == "variant":
            set_path(root, path, lambda c, k: c.__setitem__(k, copy.deepcopy(VARIANTS[f[3]])))
        elif kind == "remove":
            set_path(root, path, lambda c, k: c.__delitem__(k))
        else:
            how = f[3]
            nxt = max(objs) + 1
            holder = {}
            set_path(root, path, lambda c, k: holder.update(old=c[k]))
            old = holder["old"]
            if how == "self":
                new = Ref(oid, 0)
            elif how == "missing":
                new = Ref(9999, 0)
            elif how == "loop1":
                objs[nxt] = Ref(nxt, 0)
                new = Ref(nxt, 0)
            elif how == "loop2":
                objs[nxt] = Ref(nxt + 1, 0)
                objs[nxt + 1] = Ref(nxt, 0)
                new = Ref(nxt, 0)
            elif how == "loop3":
                objs[nxt] = Ref(nxt + 1, 0)
                objs[nxt + 1] = Ref(nxt + 2, 0)
                objs[nxt + 2] = Ref(nxt, 0)
                new = Ref(nxt, 0)
            elif how == "selfarray":
                # an array that contains a reference to itself
                objs[nxt] = [1, Ref(nxt, 0), 2]
                new = Ref(nxt, 0)
            elif how == "selfdict":
                objs[nxt] = {b"Type": Name(b"X"), b"Self": Ref(nxt, 0), b"Kids": [Ref(nxt, 0)]}
                new = Ref(nxt, 0)
            elif how == "rho1":
                # a chain that runs *into* a cycle it is not part of: A -> B, B -> B
                objs[nxt] = Ref(nxt + 1, 0)
                objs[nxt + 1] = Ref(nxt + 1, 0)
                new = Ref(nxt, 0)
            elif how == "rho2":
                # A -> B -> C -> B
                objs[nxt] = Ref(nxt + 1, 0)
                objs[nxt + 1] = Ref(nxt + 2, 0)
                objs[nxt + 2] = Ref(nxt + 1, 0)
                new = Ref(nxt, 0)
            elif how == "stream->dict":
                d = dict(objs[old.num].dict)
                d.pop(b"Length", None)
                objs[nxt] = d
                new = Ref(nxt, 0)
            else:  # dict->stream
                d = dict(objs[old.num])
                d[b"Length"] = 0
                objs[nxt] = Stream(d, b"")
                new = Ref(nxt, 0)
            set_path(root, path, lambda c, k: c.__setitem__(k, new))
    else:
        raw = obj.raw
        length = obj.dict.get(b"Length")

        def set_length(n):
            if isinstance(length, Ref):
                objs[length.num] = n
            else:
                obj.dict[b"Length"] = n

        if kind == "flip":
            b = bytearray(raw)
            b[f[2]] ^= f[3] if len(f) > 3 else 0xFF
            obj.raw = bytes(b)
        elif kind == "cut":
            obj.raw = raw[: f[2]]
            set_length(len(obj.raw))
        elif kind == "cop":
            a, b, _ = content_tokens(raw)[f[2]]
            obj.raw = raw[:a] + OPERAND_SAMPLES[f[3]] + raw[b:]
            set_length(len(obj.raw))
        elif kind == "cmapprog":
            obj.raw = CMAP_HEAD + CMAP_PROGRAMS[f[2]] + CMAP_TAIL
            obj.dict.pop(b"Filter", None)
            set_length(len(obj.raw))
        else:
            n = len(raw)
            set_length({"+1": n + 1, "-1": max(0, n - 1), "0": 0, "huge": 10**9}[f[2]])
    return seed.build(objs)


GENERIC_PARENTS = {"Font", "XObject", "ColorSpace", "CharProcs", "Dests", "ExtGState", "Pattern", "Shading"}


def role_of(seed, f):
    kind = f[0]
    if kind == "truncate":
        return "file"
    r = seed.roles.get(f[1], "obj%s" % (f[1],)) if isinstance(f[1], int) else str(f[1])
    if kind == "xrefcycle":
        return "Container.<xref entries>"
    if kind == "prevloop":
        return "Trailer.Prev"
    if kind == "xrefstmloop":
        return "Trailer.XRefStm"
    if kind == "cdict":
        return "Container:%s.%s" % (f[1], ".".join("[]" if isinstance(p, int) else p for p in f[2]))
    if kind == "ccut":
        return "Container.<payload>"
    if kind == "lengthref":
        return seed.roles.get(f[1], "obj%d" % f[1]) + ".Length"
    if kind == "inline":
        return "InlineImage.<dict>"
    if kind == "cflip":
        return "Container.<payload>"
    if kind in ("ecut", "eflip"):
        return r + ".<ciphertext>"
    if kind in ("flip", "cut", "length", "cmapprog", "cop"):
        return r + ".<payload>"
    parts = []
    prev = None
    for p in f[2]:
        if isinstance(p, int):
            parts.append("[]")
        elif prev in GENERIC_PARENTS:
            parts.append("*")
        else:
            parts.append(p)
        prev = p if isinstance(p, str) else prev
    return r + "." + ".".join(parts)


def kind_of(f):
    if f[0] == "replace":
        return "replace:" + f[3]
    if f[0] == "variant":
        return "variant:" + f[3]
    if f[0] == "ref":
        return "ref:" + f[3]
    if f[0] == "length":
        return "length:" + f[2]
    if f[0] == "xrefcycle":
        return "xref-entries-cycle"
    if f[0] == "prevloop":
        return "prev-points-at-itself"
    if f[0] == "xrefstmloop":
        return "xrefstm-points-at-itself"
    if f[0] == "cdict":
        return "container-%s:%s" % (f[3], f[4])
    if f[0] == "ccut":
        return "container-cut"
    if f[0] == "lengthref":
        return "length-ref:" + f[2]
    if f[0] == "inline":
        return "inline:%s" % f[3]
    return f[0]


# -------------------------------------------------------------------------------- execution
OPERAND_SAMPLES = [b"/Nm", b"7", b"-2.5", b"(s)", b"<41>", b"[1 (a) /B]", b"<</K 1>>", b"null", b"true"]


def content_tokens(raw):
    """(start, end, is_operand) of the white-space separated pieces of a content stream (inline image data excluded);
    a piece that is not an operator keyword counts as an operand (or part of one)."""
    import re

    out = []
    inline = False
    for m in re.finditer(rb"\S+", raw):
        w = m.group(0)
        if w == b"BI":
            inline = True
        if not inline:
            out.append((m.start(), m.end(), not re.fullmatch(rb"[A-Za-z'\"*]+", w) or w in (b"true", b"false", b"null")))
        if w == b"EI":
            inline = False
    return out


CMAP_HEAD = b"/CIDInit /ProcSet findresource begin 12 dict begin begincmap /CMapName /X def /CMapType 2 def 1 begincodespacerange <00> <FF> endcodespacerange\n"
CMAP_TAIL = b"\nendcmap CMapName currentdict /CMap defineresource pop end end\n"
CMAP_PROGRAMS = [
    b"1 beginbfrange <00000000> <0FFFFFFF> <0041> endbfrange",  # a range of 2^28 codes
    b"1 beginbfrange <00> <03> <FFFFFFFF> endbfrange",  # destination overflows 32 bits
    b"1 beginbfrange <00> <03> <FFFFFFFFFFFFFFFE> endbfrange",
    b"1 begincidrange <00000000> <0FFFFFFF> 0 endcidrange",
    b"1 begincidrange <00> <7F> 2147483647 endcidrange",
    b"1 beginbfrange <0000> <FFFF> [<0041>] endbfrange",  # list shorter than the range
    b"1 beginbfrange <41> <40> <0041> endbfrange",  # end before start
    b"1 beginbfchar <41> <D800> endbfchar 1 beginbfchar <42> <DC00DC00> endbfchar",  # lone surrogates
    b"1 beginbfchar <41> <> endbfchar 1 beginbfrange <> <> <> endbfrange",  # empty strings
    b"/X usecmap /Adobe-Identity-UCS usecmap /H usecmap /Identity-H usecmap",
    b"1 begincodespacerange <00> <FFFFFFFFFF> endcodespacerange 1 beginbfchar <4142434445> <0041> endbfchar",
    b"100000 beginbfchar <41> <0041> endbfchar",
    b"begincmap begincmap endcmap 1 beginbfchar <41> <0042> endbfchar",
    b"1 beginbfrange <41> <43> [/A /uni0041 /u110000] endbfrange 1 beginbfchar <44> /Euro endbfchar",
    b"1 beginnotdefrange <00> <FF> 0 endnotdefrange 1 beginbfrange <00> <FF> 0 endbfrange",
]
DENSE_ROLES = ("FontFile", "JBIG2Globals", "Image:JBIG2", "Image:CCITT", "ToUnicode", "CMapStream")
IMAGE_SEEDS = ("images", "forms-images", "filters")


class OutputUnbounded(Exception):
    """Harness verdict: the export allocated more disk than OUT_K x (input size + STEP_C)."""


OUT_K = 2000  # Flate expands at most ~1032:1, so a valid image never needs more than this per input byte


def export_images(data):
    """extract_text_to_fp with an output directory: every image of the document goes through ImageWriter.
    The disk space actually allocated to the exported files (holes do not count) must stay proportional to the input."""
    import os

    sc = Scratch("verif-c13-")
    try:
        out = sc.makedirs("out")
        try:
            extract_text_to_fp(io.BytesIO(data), io.StringIO(), output_type="text", output_dir=out)
        finally:
            used = sum(os.lstat(os.path.join(out, n)).st_blocks * 512 for n in os.listdir(out))
            if used > OUT_K * (len(data) + STEP_C):
                raise OutputUnbounded("%d bytes allocated for a document of %d bytes" % (used, len(data)))
    finally:
        sc.cleanup()


NOCACHE_FAULTS = ("ref", "xrefcycle", "prevloop", "xrefstmloop", "lengthref")


def strict_extract(data):
    """The library's strict setting turns tolerated oddities into errors - of the documented family."""
    from pdfminer import settings

    settings.STRICT = True
    try:
        extract_text(io.BytesIO(data))
    finally:
        settings.STRICT = False


def page_by_page(data):
    """The caller's own loop over the pages, going on to the next page when one of them fails with a library error:
    what failed once may be asked for again (shared streams, fonts, forms) and must fail the same, documented way."""
    from pdfminer.converter import PDFPageAggregator
    from pdfminer.layout import LAParams
    from pdfminer.pdfdocument import PDFDocument
    from pdfminer.pdfinterp import PDFPageInterpreter, PDFResourceManager
    from pdfminer.pdfpage import PDFPage
    from pdfminer.pdfparser import PDFParser

    doc = PDFDocument(PDFParser(io.BytesIO(data)))
    rm = PDFResourceManager()
    dev = PDFPageAggregator(rm, laparams=LAParams())
    interp = PDFPageInterpreter(rm, dev)
    pages = PDFPage.create_pages(doc)
    failed = None
    for rounds in range(2):
        while True:
            try:
                page = next(pages, None)
            except PSException as e:
                failed = e
                break
            if page is None:
                break
            for _ in range(2):  # each page twice: the second attempt sees what the first one left behind
                try:
                    interp.process_page(page)
                    dev.get_result()
                except PSException as e:
                    failed = e
        pages = PDFPage.create_pages(doc)
    if failed is not None:
        raise failed


def entry_points(data, seed_name="", fault=None, tier="thorough"):
    """(name, callable) pairs.  The quick tier leaves out extract_pages (the layout stage alone, which extract_text and
    the converters run through as well) and, where the HTML converter runs, the XML converter."""
    if fault is not None and fault[0] in NOCACHE_FAULTS:
        # reference faults also without the object cache: loop guards must not depend on objects being cached
        yield "extract_text(caching=False)", (lambda: extract_text(io.BytesIO(data), caching=False))
    if seed_name in IMAGE_SEEDS:
        yield "extract_text_to_fp(output_dir)", (lambda: export_images(data))
    yield "extract_text", (lambda: extract_text(io.BytesIO(data)))
    if fault is not None and fault[0] != "truncate":
        yield "page-by-page loop", (lambda: page_by_page(data))
    if fault is not None and fault[0] in ("replace", "variant", "remove", "ref"):
        yield "extract_text under settings.STRICT", (lambda: strict_extract(data))
    if tier != "quick":
        yield "extract_pages", (lambda: list(extract_pages(io.BytesIO(data))))

    def xml():
        out = io.BytesIO()
        extract_text_to_fp(io.BytesIO(data), out, output_type="xml", codec="utf-8")

    html_runs = fault is not None and fault[0] != "truncate"
    if tier != "quick" or not html_runs:
        yield "extract_text_to_fp(xml)", xml
    if html_runs:

        def html():
            extract_text_to_fp(io.BytesIO(data), io.BytesIO(), output_type="html", codec="utf-8")

        yield "extract_text_to_fp(html)", html


SAMPLES = ["jo.pdf", "contrib/issue-00369-excel.pdf", "contrib/issue-1059-cmap-decode.pdf", "contrib/issue-1057-tiff-predictor.pdf", "contrib/issue-886-xref-stream-widths.pdf", "contrib/matplotlib.pdf", "contrib/pdf-with-jbig2.pdf"]
SAMPLES_STRIDED = ["simple4.pdf", "contrib/issue-1062-filters.pdf", "contrib/pagelabels.pdf", "sampleOneByteIdentityEncode.pdf", "contrib/2b.pdf", "encryption/aes-128.pdf", "encryption/rc4-128.pdf", "encryption/aes-256-r6.pdf", "contrib/issue-625-identity-cmap.pdf"]
_sample_cache = {}


def sample_bytes(rel):
    if rel not in _sample_cache:
        import os

        with open(os.path.join(core.REPO, "samples", rel), "rb") as fh:
            _sample_cache[rel] = fh.read()
    return _sample_cache[rel]


class _SampleSeed:
    """A repository sample used for torn-write (truncation) faults only."""

    def __init__(self, rel):
        self.name = "sample:" + rel
        self.roles = {}


def run(tape, ctx, item=None):
    if item is None:
        raise core.HarnessError("C13 runs enumerated items only")
    f = item["f"]
    if "sample" in item:
        seed = _SampleSeed(item["sample"])
        BASE[seed.name] = sample_bytes(item["sample"])
        data = BASE[seed.name][: f[1]]
    else:
        seed = SEEDS[item["seed"]]
        data = apply_fault(seed, f)
    budget = STEP_K * (len(data) + STEP_C)
    devs = []
    fk, role = kind_of(f), role_of(seed, f)
    ctx.fault(f[0] if f[0] not in ("replace", "ref", "variant") else fk)
    ctx.probe({"truncate": "truncation", "replace": "replace", "variant": "replace", "xrefcycle": "ref-loop", "prevloop": "ref-loop", "xrefstmloop": "ref-loop", "inline": "replace", "cdict": "replace", "ccut": "payload", "lengthref": "ref-loop", "remove": "remove", "ref": "ref-loop" if f[0] == "ref" and f[3][:3] in ("loo", "rho") else "replace", "flip": "payload", "cut": "payload", "length": "payload", "cmapprog": "payload", "cop": "replace", "cflip": "payload", "ecut": "payload", "eflip": "payload"}[f[0]])
    outcomes = []
    for name, fn in entry_points(data, seed.name, f, ctx.tier):
        # (the page-by-page loop interprets every page four times: its budget is four single passes)
        seams.CLOCK.start(budget * (4 if name == "page-by-page loop" else 1))
        sig = None
        rss0 = resource.getrusage(resource.RUSAGE_SELF).ru_maxrss
        try:
            fn()
            outcomes.append("ok")
            ctx.probe("outcome:returned")
        except PSException:
            outcomes.append("PSException")
            ctx.probe("outcome:PSException")
        except seams.SimBudgetExceeded as e:
            sig = "StepBudgetExceeded@%s" % where(e)
        except ImportError as e:
            # the documented answer when an export format needs the optional Pillow package, which is absent here
            if "Could not import Pillow" in str(e) and "pdfminer.six[image]" in str(e):
                outcomes.append("needs-Pillow")
                ctx.probe("outcome:needs-Pillow")
            else:
                sig = "ImportError@%s" % where(e)
        except OutputUnbounded as e:
            sig = "OutputUnbounded@export"
        except OSError as e:
            # the harness caps the size of a written file (RLIMIT_FSIZE, the simulated full disk): a declared geometry may
            # legitimately ask for a larger (sparse) file; what was really allocated is judged by OutputUnbounded above
            if e.errno == errno.EFBIG:
                outcomes.append("file-size-limit")
                ctx.probe("outcome:file-size-limit")
            else:
                sig = "OSError@%s" % where(e)
        except RecursionError as e:
            sig = "RecursionError@%s" % where(e)
        except MemoryError as e:
            sig = "MemoryError@%s" % where(e)
        except Exception as e:
            sig = "%s@%s" % (type(e).__name__, where(e))
        finally:
            steps = seams.CLOCK.stop()
        # work the step clock cannot see (allocation and I/O inside C calls): the process's memory high-water mark may
        # not rise by more than max(128 MB, OUT_K x (len + STEP_C)) during one call
        grown = (resource.getrusage(resource.RUSAGE_SELF).ru_maxrss - rss0) * 1024
        if sig is None and grown > max(128 << 20, OUT_K * (len(data) + STEP_C)):
            if outcomes:
                outcomes.pop()
            sig = "MemoryUnbounded@%s" % name.split("(")[0]
        ctx.steps += steps
        r = steps // (len(data) + STEP_C)
        if sig is None and r > ctx.probes.get("max steps per (byte+%d)" % STEP_C, 0):
            ctx.probes["max steps per (byte+%d)" % STEP_C] = r
        if sig:
            outcomes.append(sig)
            devs.append(Dev("C13:%s|%s|%s" % (sig, fk, role), "seed document %r, fault %r, entry point %s: %s (document %d bytes, step budget %d)" % (seed.name, f, name, sig, len(data), budget)))
    seen = {}
    for d in devs:
        seen.setdefault(d.sig, d)
    tape.note((item, outcomes))
    sample = {"seed": seed.name, "fault": f, "role": role, "outcomes": outcomes, "bytes": len(data)}
    if "sample" in item:
        BASE.pop(seed.name, None)
    return Outcome(list(seen.values()), scen=data.hex() if len(data) < 64 else __import__("hashlib").sha256(data).hexdigest(), nontrivial=len(data) > 0 and data != BASE.get(seed.name), sample=sample)


# -------------------------------------------------------------------------------- jobs
def all_items(seed_name):
    seed = SEEDS[seed_name]
    for f in structural_faults(seed):
        yield {"seed": seed_name, "f": f}
    for f in payload_faults(seed):
        yield {"seed": seed_name, "f": f}


def jobs(tier, seed):
    setup()
    p = TIERS[tier]
    js = []
    names = sorted(SEEDS)
    b = 0
    for name in names:
        nparts = 8
        for part in range(nparts):
            js.append({"kind": "enum", "batch": b, "seed": name, "what": "faults", "part": part, "nparts": nparts, "stride": p["stride"], "phase": seed % p["stride"]})
            b += 1
    trunc = names if tier == "thorough" else [names[seed % len(names)], names[(seed + 3) % len(names)]]
    for name in trunc:
        nparts = 4
        for part in range(nparts):
            js.append({"kind": "enum", "batch": b, "seed": name, "what": "truncate", "part": part, "nparts": nparts})
            b += 1
    # torn writes of real-world producers' files: every truncation point (thorough) / a seed-phased stride (quick)
    for rel in SAMPLES:
        nparts = 8 if tier == "thorough" else 1
        for part in range(nparts):
            js.append({"kind": "enum", "batch": b, "sample": rel, "what": "sample-truncate", "part": part, "nparts": nparts, "stride": 1 if tier == "thorough" else 29, "phase": seed})
            b += 1
    # larger samples: every 11th offset belongs to the fault set (thorough: all of those; quick: a seed-phased 1/20 of them)
    for rel in SAMPLES_STRIDED:
        nparts = 8 if tier == "thorough" else 1
        for part in range(nparts):
            js.append({"kind": "enum", "batch": b, "sample": rel, "what": "sample-truncate", "part": part, "nparts": nparts, "stride": 1 if tier == "thorough" else 20, "phase": seed, "step": 11})
            b += 1
    # the truncated samples are the largest inputs, where superlinear work shows first: they run before the fault
    # grid so that a slow tree cannot push them beyond the wall-clock cap
    js.sort(key=lambda j: (0 if j["what"] == "sample-truncate" else 1, j["batch"]))
    return js


def items(job):
    setup()
    if job["what"] == "sample-truncate":
        n = len(sample_bytes(job["sample"]))
        step = job.get("step", 1)
        for i, k in enumerate(range(0, n, step)):
            if i % job["nparts"] != job["part"]:
                continue
            if (i // job["nparts"]) % job["stride"] == job["phase"] % job["stride"]:
                yield {"sample": job["sample"], "f": ["truncate", k]}
        return
    if job["what"] == "truncate":
        n = len(BASE[job["seed"]])
        for k in range(job["part"], n, job["nparts"]):
            yield {"seed": job["seed"], "f": ["truncate", k]}
        return
    nstruct = sum(1 for _ in structural_faults(SEEDS[job["seed"]]))
    for i, it in enumerate(all_items(job["seed"])):
        if i % job["nparts"] != job["part"]:
            continue
        # payload / container / trailer faults are few and each reaches its own code: every tier runs all of them;
        # the quick tier strides only the (value x type) grid of structural faults
        if i < nstruct and (i // job["nparts"]) % job["stride"] != job["phase"] % job["stride"]:
            continue
        yield it
