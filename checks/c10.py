"""C10 - decryption: either password opens the document to exactly the original content (DESIGN 5/C10).

Workload : a plaintext model document (strings at every nesting position incl. stream dictionaries, streams with and
           without filters, object streams, xref stream or table, generations > 0, a Metadata stream, a text page)
           encrypted by sim.crypt (independent implementation): V1/R2 RC4-40, V2/R3 RC4 40..128, V4/R4 crypt filters
           V2 / AESV2 / Identity, V5/R5 and R6 AESV3; any user/owner password pair, P, ID present or absent,
           EncryptMetadata.
Schedule : the encrypted store is read in tape-chosen order with repeats, caching on/off/evicting (a string is
           requested before and after it was cached, an object-stream member before and after its container was
           decoded), under a chunk schedule; opened with the user password, the owner password and wrong ones.
Oracle   : every getobj equals the plaintext model; permissions equal bits 3/4/5 of P; extract_text equals that of the
           unencrypted document; wrong passwords raise exactly PDFPasswordIncorrect.
"""
import unicodedata
import zlib
from io import BytesIO

from sim import core, crypt, docs, seams
from sim.core import Dev, Outcome
from sim.oracle import match, where
from sim.pdfwriter import Name, Real, Ref, Str, Stream

ID = "C10"
LEVEL = "exploration"
RULE = (
    "a case = one plaintext document and one security-handler configuration (V,R,key length, crypt filter method, "
    "EncryptMetadata, P, ID, password pair); the encrypted file is opened with the user password, the owner password and "
    "2 wrong passwords; under each correct password all objects are read in a tape-chosen order with repeats under a "
    "drawn chunk schedule, caching flag and eviction schedule, and extract_text is compared with the unencrypted file. "
    "distinct = distinct (file bytes, password used, read order, schedule); non-trivial = the configuration encrypts "
    "(method is not Identity) and at least one string or stream is non-empty."
)
COMPONENTS_REAL = ["pdfminer.pdfdocument (PDFStandardSecurityHandler, V4, V5, _initialize_password, getobj/decipher_all)", "pdfminer.arcfour", "pdfminer.pdftypes.PDFStream.decode", "pdfminer._saslprep", "pdfminer.high_level.extract_text"]
COMPONENTS_STUB = ["file object: io.BytesIO over SimWriter output", "encrypting producer: sim.crypt (own RC4, key derivation, AES via cryptography)", "BUFSIZ chunk seam", "cache eviction wrapper", "pdftypes.zlib: proxy that fails one decompress() with MemoryError when armed (transient allocation fault), the real module otherwise"]
ASSUMPTIONS = [
    "the cross-reference stream object of the encrypted file is not part of 'the original' (it is a container the writer adds)",
    "revision-5/6 passwords are limited to strings on which SASLprep reduces to NFKC; R<=4 *correct* passwords are Latin-1",
    "V4 files use the same crypt filter for strings and streams (the library reports others as unsupported, a documented outcome)",
]
PROBES = ["run under settings.STRICT", "right password after a wrong one, same parser", "cross-reference table unusable (body scan)", "V1R2 RC4-40", "V2R3 RC4", "V4R4 V2", "V4R4 AESV2", "V4R4 Identity", "V5R5 AESV3", "V5R6 AESV3", "owner password differs", "empty user password", "non-ASCII password", "long password", "no ID", "/ID elements differ", "EncryptMetadata false", "object stream", "generation > 0", "object number above 65535", "string inside stream dictionary", "eviction happened", "wrong password non-Latin-1", "two encrypted documents read alternately"]
TIERS = {
    "quick": {"batches": 16, "runs": 400, "budget_s": 90},
    "thorough": {"batches": 128, "runs": 500, "budget_s": 1200},
}
DETERMINISM_SLICE = 4
_ready = False


def setup():
    global _ready, PDFDocument, PDFParser, PDFPasswordIncorrect, PDFObjectNotFound, extract_text
    if _ready:
        return
    core.import_sut()
    from pdfminer.high_level import extract_text
    from pdfminer.pdfdocument import PDFDocument, PDFPasswordIncorrect
    from pdfminer.pdfparser import PDFParser
    from pdfminer.pdftypes import PDFObjectNotFound

    seams.install_chunk_seam()
    seams.EVICT.install()
    import pdfminer.pdftypes as _PT

    _PT.zlib = ZFAULT  # the allocation seam of the Flate decoder (transparent unless armed)
    _ready = True


class _ZlibFault:
    """Stands in for the zlib module inside pdfminer.pdftypes: when armed, the next decompress() fails once with
    MemoryError (a transient allocation failure in the middle of a decode); everything else is the real module."""

    armed = False
    fired = 0

    def __getattr__(self, name):
        return getattr(zlib, name)

    def decompress(self, data, *a, **k):
        if self.armed:
            self.armed = False
            self.fired += 1
            raise MemoryError("simulated: allocation failed in zlib.decompress")
        return zlib.decompress(data, *a, **k)


ZFAULT = _ZlibFault()


PW_BASE = ["", "user", "owner", "a", "pass word", "pässwörd", "0123456789012345678901234567890123456789", "é", "x" * 33, "Secret-1"]
PW_POOL = PW_BASE + ["a\u00a0b", "soft\u00adhyphen", "c1\u0080\u009f", "del\x7f\x1b", "£¥"]
# (revisions 2-4 take the password as Latin-1 bytes: every character up to U+00FF is one byte, also the no-break space, the
# soft hyphen and the C0/C1 controls)
PW_POOL_UNI = PW_BASE + ["абв", "パス", "naïve café " * 12, "é" * 64, "x" + "é" * 70, "a" * 126 + "ж", "x²+y²", "5µm", "1ª planta ¾", "ﬁne Ⅻ", "ＡＢＣ１２３", "a\u00a0b"]
# (the last six change under NFKC / SASLprep: a writer derives the key from the prepared form, the user types the raw one)


def gen_bytes(t, label):
    k = t.draw(6, label + ".kind")
    if t.coin(2, 100, label + ".long"):
        # long data (sizes around 1 K and 4 K): every byte is still deciphered with the object's key
        n = t.pick([1023, 1024, 1025, 2048, 4095, 4097], label + ".longn")
        seedb = t.draw(256, label + ".longseed")
        return bytes((i * 31 + seedb) % 251 for i in range(n))
    if k == 0:
        return b""
    if k == 1:
        return b"plain text"
    if k == 2:
        return bytes(t.draw(256, label + ".b") for _ in range(t.rint(1, 40, label + ".n")))
    if k == 3:
        return b"x" * t.pick([15, 16, 17, 31, 32, 33], label + ".blk")  # around the AES block size
    if k == 4:
        return b"(paren) \\ \r\n \x00\xff"
    return b"\x10" * 16  # looks like a full block of PKCS#7 padding


def gen_value(t, depth=2):
    k = t.draw(9, "val.kind")
    if depth > 0 and k < 2:
        return [gen_value(t, depth - 1) for _ in range(t.draw(4, "val.n"))]
    if depth > 0 and k < 5:
        return {t.pick([b"A", b"B", b"S", b"T", b"Title", b"Contents", b"Contents", b"Cert", b"ID"], "val.key"): gen_value(t, depth - 1) for _ in range(t.rint(1, 3, "val.dn"))}
    if k < 7:
        return Str(gen_bytes(t, "str"))
    if k == 7:
        return t.rint(-5, 1000, "val.int")
    return Name(t.pick([b"N1", b"Type", b"X"], "val.name"))


def build_plain(t, ctx):
    objects = {}
    gens = {}
    content = b"BT /F1 12 Tf 72 700 Td (" + t.pick([b"Secret text", b"Hello", b"encrypted page 42"], "page.text") + b") Tj ET"
    objects[1] = {b"Type": Name(b"Catalog"), b"Pages": Ref(2, 0), b"Metadata": Ref(6, 0)}
    objects[2] = {b"Type": Name(b"Pages"), b"Kids": [Ref(3, 0)], b"Count": 1}
    objects[3] = {b"Type": Name(b"Page"), b"Parent": Ref(2, 0), b"MediaBox": [0, 0, 612, 792], b"Contents": Ref(4, 0), b"Resources": {b"Font": {b"F1": Ref(5, 0)}}}
    objects[4] = docs.content_stream(content, flate=t.coin(50, 100, "content.flate"))
    objects[5] = docs.std_font(b"Helvetica")
    objects[6] = docs.content_stream(b"<x:xmpmeta>meta " + gen_bytes(t, "meta") + b"</x:xmpmeta>", extra={b"Type": Name(b"Metadata"), b"Subtype": Name(b"XML")})
    objects[7] = {b"Producer": Str(b"verif C10"), b"Title": Str(gen_bytes(t, "title"))}
    n = 8
    for _ in range(t.rint(2, 8, "nobj")):
        k = t.draw(4, "obj.kind")
        if k == 0:
            raw = gen_bytes(t, "stream")
            d = {b"K": t.draw(9, "s.k")}
            if t.coin(60, 100, "s.dictstr"):
                d[b"Note"] = Str(gen_bytes(t, "s.note"))
                ctx.probe("string inside stream dictionary")
            objects[n] = docs.content_stream(raw, flate=t.coin(40, 100, "s.flate"), extra=d)
        elif k == 1:
            objects[n] = Str(gen_bytes(t, "topstr"))
        else:
            objects[n] = gen_value(t)
        if t.coin(20, 100, "obj.gen"):
            gens[n] = t.pick([1, 2, 65535], "obj.genv")
            ctx.probe("generation > 0")
        n += 1
    if t.coin(25, 100, "obj.high"):
        # object numbers beyond 16 and 24 bits (the per-object key uses the low three bytes of the number)
        for hi in t.pick([[70000], [16777215, 16777216 + 9], [65536, 16777300]], "obj.highnums"):
            objects[hi] = Str(gen_bytes(t, "highstr")) if t.coin(50) else {b"S": Str(gen_bytes(t, "highstr2"))}
        ctx.probe("object number above 65535")
    return objects, gens


def gen_config(t, ctx):
    kind = t.pick(["V1R2", "V2R3", "V4R4-V2", "V4R4-AESV2", "V4R4-Identity", "V5R5", "V5R6", "V2R3", "V4R4-AESV2"], "cfg.kind")
    uni = kind.startswith("V5")
    pool = PW_POOL_UNI if uni else PW_POOL
    user = t.pick(pool, "cfg.user")
    owner = t.pick(pool + [None, None], "cfg.owner")
    if owner == user or owner == "":
        owner = None  # an empty owner password means "no owner password": the user password is used instead
    if owner is not None:
        ctx.probe("owner password differs")
    if user == "":
        ctx.probe("empty user password")
    if any(ord(c) > 127 for c in user + (owner or "")):
        ctx.probe("non-ASCII password")
    if len(user) > 32 or len(owner or "") > 32:
        ctx.probe("long password")
    p = t.pick([-1, -4, -3904, -44, 0xFFFFF0C0 - (1 << 32), -1852, 4, 8, 16, 0, 2147483647], "cfg.p")
    if t.coin(40, 100, "cfg.pmask"):
        # any combination of the permission bits 3..12 (the reserved high bits set, as writers store them)
        p = -4096 + (t.draw(1024, "cfg.pbits") << 2)
    docid = None if t.coin(20, 100, "cfg.noid") else bytes(t.draw(256, "cfg.id") for _ in range(16))
    if docid is None:
        ctx.probe("no ID")
    # the second element of /ID is the changing identifier: the key uses the first one only, whatever the second is
    id2 = None
    if docid is not None and t.coin(40, 100, "cfg.id2"):
        id2 = t.pick(["other", "other", "empty-first", "single", "empty-second"], "cfg.id2.kind")
        if id2 == "empty-first":
            docid = b""
        ctx.probe("/ID elements differ")
    em = not t.coin(35, 100, "cfg.em")
    keybits = t.pick([40, 48, 64, 96, 128], "cfg.bits")
    if kind == "V1R2":
        v, r, cfm, em, keybits = 1, 2, "V2", True, 40
        ctx.probe("V1R2 RC4-40")
    elif kind == "V2R3":
        v, r, cfm, em = 2, 3, "V2", True
        ctx.probe("V2R3 RC4")
    elif kind.startswith("V4R4"):
        v, r, cfm, keybits = 4, 4, kind.split("-")[1], 128
        ctx.probe("V4R4 " + cfm)
    else:
        v, r, cfm, keybits = 5, int(kind[-1]), "AESV3", 256
        ctx.probe("V5R%d AESV3" % r)
    if not em and v >= 4:
        ctx.probe("EncryptMetadata false")
    return dict(v=v, r=r, keybits=keybits, cfm=cfm, user=user, owner=owner, p=p, docid=docid, em=em, id2=id2)


def id_array(cfg):
    first = Str(cfg["docid"])
    kind = cfg.get("id2")
    if kind in ("other", "empty-first"):
        return [first, Str(bytes((b * 7 + 3) % 256 for b in (cfg["docid"] or b"0123456789abcdef")))]
    if kind == "single":
        return [first]
    if kind == "empty-second":
        return [first, Str(b"")]
    return [first, first]


def wrong_passwords(t, cfg, ctx):
    cands = ["wrong", "User", " ", "€ uro", cfg["user"] + "x", (cfg["owner"] or "zz")[:-1] + "_", "ф", "x" * 200]
    # passwords that password preparation (SASLprep, revisions 5 and 6) refuses: control characters, mixed directionality
    cands += ["ctl\x7f\x1b", "\u05d0a1"]
    # look-alikes of the right password in another single-byte encoding (0xA0 is the Euro sign, 0x80 the bullet in PDFDocEncoding)
    cands.append(cfg["user"].replace("\u00a0", "\u20ac").replace("\u0080", "\u2022").replace("\u00ad", "-"))
    out = []
    for _ in range(2):
        w = t.pick(cands, "wrong.pw")
        if w in (cfg["user"], cfg["owner"]):
            continue
        if cfg["r"] >= 5 and unicodedata.normalize("NFKC", w).encode()[:127] in (unicodedata.normalize("NFKC", cfg["user"]).encode()[:127], unicodedata.normalize("NFKC", cfg["owner"] or cfg["user"]).encode()[:127]):
            continue
        if cfg["r"] <= 4:
            try:
                wb = (w.encode("latin-1") + crypt.PAD)[:32]
            except UnicodeEncodeError:
                wb = None
                ctx.probe("wrong password non-Latin-1")
            if wb is not None and wb in ((cfg["user"].encode("latin-1") + crypt.PAD)[:32], ((cfg["owner"] or cfg["user"]).encode("latin-1") + crypt.PAD)[:32]):
                continue  # passwords are compared on their first 32 bytes
        out.append(w)
    return out


def run(tape, ctx, item=None):
    # the library's strict setting is a knob of the run: well-formed input reads the same under it
    if tape.coin(8, 100, "knob.strict"):
        from pdfminer import settings as _settings

        ctx.probe("run under settings.STRICT")
        _settings.STRICT = True
        try:
            out = run_inner(tape, ctx, item)
        finally:
            _settings.STRICT = False
        for d in out.devs:
            d.msg = "under settings.STRICT: " + d.msg
        return out
    return run_inner(tape, ctx, item)


def run_inner(tape, ctx, item=None):
    t = tape
    devs = []
    objects, gens = build_plain(t, ctx)
    cfg = gen_config(t, ctx)
    rnd = lambda n: bytes(t.draw(256, "rnd") for _ in range(n))  # noqa: E731
    h = crypt.Handler(cfg["v"], cfg["r"], cfg["keybits"], cfg["cfm"], cfg["user"], cfg["owner"], cfg["p"], cfg["docid"], cfg["em"], rnd)
    form = t.pick(["table", "stream"], "form")
    pack = None
    if form == "stream":
        pack = [i for i in objects if i >= 7 and t.coin(60, 100, "pack")]
        if pack:
            ctx.probe("object stream")
    trailer_extra = {b"Encrypt": h.encrypt_dict(explicit_length=t.coin(50, 100, "cfg.explicit"))}
    if cfg["docid"] is not None:
        trailer_extra[b"ID"] = id_array(cfg)
    narrow = form == "stream" and t.coin(35, 100, "w3.zero")  # /W [1 n 0] where every generation and index is 0
    plain_pdf = docs.build_pdf(objects, 1, info=7, form=form, pack=pack, gens=gens).getvalue()
    fw = docs.build_pdf(objects, 1, info=7, form=form, pack=pack, gens=gens, encrypt=h, trailer_extra=trailer_extra, narrow_w3=narrow)
    enc_pdf = fw.getvalue()
    cuts = list(fw.cuts)
    lost_xref = form == "table" and t.coin(15, 100, "lostxref")
    if lost_xref:
        # the pointer to the cross-reference table is unusable: the body is scanned instead, and the keys still depend
        # on each object's number and generation as written in its "N G obj" line
        i = enc_pdf.rindex(b"startxref") + 9
        j = i
        while j < len(enc_pdf) and not enc_pdf[j : j + 1].isdigit():
            j += 1
        k = j
        while k < len(enc_pdf) and enc_pdf[k : k + 1].isdigit():
            k += 1
        enc_pdf = enc_pdf[:j] + b"0" * (k - j) + enc_pdf[k:]  # startxref 0: the file header is no cross-reference section
        ctx.probe("cross-reference table unusable (body scan)")
    desc = "V%d R%d %s keybits=%d user=%r owner=%r P=%d id=%s EncryptMetadata=%s form=%s pack=%s%s" % (cfg["v"], cfg["r"], cfg["cfm"], cfg["keybits"], cfg["user"], cfg["owner"], cfg["p"], ("yes" if cfg["docid"] else "no" if cfg["docid"] is None else "empty") + ("/" + cfg["id2"] if cfg.get("id2") else ""), cfg["em"], form, pack, " startxref-lost" if lost_xref else "")
    scen = []
    try:
        want_text = extract_text(BytesIO(plain_pdf))
    except Exception as e:
        raise core.HarnessError("plaintext document does not extract: %r" % (e,))
    # ---- wrong passwords
    for w in wrong_passwords(t, cfg, ctx):
        try:
            PDFDocument(PDFParser(BytesIO(enc_pdf)), password=w)
            devs.append(Dev("C10:wrong-password-accepted", "password %r opened the document; %s" % (w, desc)))
        except PDFPasswordIncorrect:
            pass
        except Exception as e:
            devs.append(Dev("C10:wrong-password:raise:%s@%s" % (type(e).__name__, where(e)), "password %r: %r instead of PDFPasswordIncorrect; %s" % (w, e, desc)))
        scen.append(("wrong", w))
    # ---- correct passwords
    correct = [("user", cfg["user"])]
    if cfg["owner"] is not None:
        correct.append(("owner", cfg["owner"]))
    pu = cfg["p"] & 0xFFFFFFFF
    for who, pw in correct:
        pol, pdesc = seams.draw_chunk_policy(t, cuts)
        caching = not t.coin(30, 100, "caching")
        ev = seams.draw_evict(t)
        ids = sorted(objects)
        order = t.shuffle(ids, "order") + [t.pick(ids, "order.rep") for _ in range(t.rint(0, len(ids), "order.nrep"))]
        transient = t.coin(20, 100, "fault.transient")
        cfgs = "%s password; chunk=%s caching=%s evict=%s%s; %s" % (who, pdesc, caching, bool(ev), " first-decode-fails-once" if transient else "", desc)
        ctx.seam("chunk")
        ctx.seam("evict", 1 if ev else 0)
        seams.CHUNK.policy = pol
        seams.EVICT.set(ev)
        seams.EVICT.evictions = 0
        try:
            try:
                parser = PDFParser(BytesIO(enc_pdf))
                if t.coin(25, 100, "retry"):
                    # the usual retry loop: a wrong password first, then the right one with the same parser object
                    ctx.probe("right password after a wrong one, same parser")
                    cfgs += "; after a rejected attempt with the same parser"
                    try:
                        PDFDocument(parser, password=pw + "?", caching=caching)
                    except PDFPasswordIncorrect:
                        pass
                doc = PDFDocument(parser, password=pw, caching=caching)
            except Exception as e:
                devs.append(Dev("C10:open:raise:%s@%s" % (type(e).__name__, where(e)), "%r; %s" % (e, cfgs)))
                continue
            for name, bit in (("is_printable", 4), ("is_modifiable", 8), ("is_extractable", 16)):
                if getattr(doc, name) != bool(pu & bit):
                    devs.append(Dev("C10:permission:%s" % name, "%s=%r but P=%d; %s" % (name, getattr(doc, name), cfg["p"], cfgs)))
            for i in order:
                try:
                    got = doc.getobj(i)
                except Exception as e:
                    devs.append(Dev("C10:getobj:raise:%s@%s" % (type(e).__name__, where(e)), "object %d: %r; %s" % (i, e, cfgs)))
                    continue
                mism = []
                packed = bool(pack) and i in pack
                if transient and isinstance(objects[i], Stream) and hasattr(got, "get_data"):
                    # a decode that fails half-way for a reason that passes (no memory): the stream object stays usable,
                    # the next get_data() gives the content
                    ZFAULT.armed = True
                    try:
                        got.get_data()
                    except MemoryError:
                        ctx.fault("transient MemoryError inside the first decode of a stream")
                    except Exception as e:
                        devs.append(Dev("C10:get_data:raise:%s@%s" % (type(e).__name__, where(e)), "object %d: %r; %s" % (i, e, cfgs)))
                    finally:
                        ZFAULT.armed = False

                def expect(m):
                    filt = m.dict.get(b"Filter")
                    return zlib.decompress(m.raw) if filt == Name(b"FlateDecode") else m.raw

                model = objects[i]
                if isinstance(model, Stream):
                    # /Length of the stored (encrypted, possibly padded) data is not part of the original
                    model = Stream({k: v for k, v in model.dict.items() if k != b"Length"}, model.raw)
                    if hasattr(got, "attrs"):
                        got.attrs.pop("Length", None)
                match(model, got, None, "obj%d" % i, mism, expect)
                for path, k, detail, _ in mism:
                    where_ = "stream-dict-string" if isinstance(objects[i], Stream) and "<dict>" in path and k == "string" else ("objstm-member" if packed else "direct")
                    devs.append(Dev("C10:wrong-%s:%s" % (k, where_), "at %s: %s; %s" % (path, detail, cfgs)))
            # trailer /ID must come back untouched
            if cfg["docid"] is not None:
                try:
                    tid = doc.xrefs[0].get_trailer().get("ID")
                    if not (isinstance(tid, list) and tid and tid[0] == cfg["docid"]):
                        devs.append(Dev("C10:trailer-id-transformed", "trailer ID %r, written %r; %s" % (tid, cfg["docid"], cfgs)))
                except Exception as e:
                    devs.append(Dev("C10:trailer:raise:%s" % type(e).__name__, "%r; %s" % (e, cfgs)))
            if seams.EVICT.evictions:
                ctx.probe("eviction happened", seams.EVICT.evictions)
            try:
                got_text = extract_text(BytesIO(enc_pdf), password=pw, caching=caching)
                if got_text != want_text:
                    devs.append(Dev("C10:extract_text-differs", "%r, unencrypted original gives %r; %s" % (got_text, want_text, cfgs)))
            except Exception as e:
                devs.append(Dev("C10:extract_text:raise:%s@%s" % (type(e).__name__, where(e)), "%r; %s" % (e, cfgs)))
        finally:
            seams.CHUNK.policy = None
            seams.EVICT.set(None)
        scen.append((who, pdesc, caching, bool(ev), order))
    # ---- two encrypted documents with the same object numbers but different keys, read alternately
    if t.coin(30, 100, "second.doc") and not devs:
        cfg2 = gen_config(t, ctx)
        h2 = crypt.Handler(cfg2["v"], cfg2["r"], cfg2["keybits"], cfg2["cfm"], cfg2["user"], cfg2["owner"], cfg2["p"], cfg2["docid"], cfg2["em"], rnd)
        te2 = {b"Encrypt": h2.encrypt_dict()}
        if cfg2["docid"] is not None:
            te2[b"ID"] = id_array(cfg2)
        enc2 = docs.build_pdf(objects, 1, info=7, form=form, pack=pack, gens=gens, encrypt=h2, trailer_extra=te2).getvalue()
        ctx.probe("two encrypted documents read alternately")
        try:
            da = PDFDocument(PDFParser(BytesIO(enc_pdf)), password=cfg["user"])
            db = PDFDocument(PDFParser(BytesIO(enc2)), password=cfg2["user"])
            for i in t.shuffle(sorted(objects), "second.order"):
                for which, dd in (("first", da), ("second", db)):
                    mism = []
                    model = objects[i]
                    got = dd.getobj(i)
                    if isinstance(model, Stream):
                        model = Stream({k: v for k, v in model.dict.items() if k != b"Length"}, model.raw)
                        if hasattr(got, "attrs"):
                            got.attrs.pop("Length", None)
                    match(model, got, None, "obj%d" % i, mism, lambda m: zlib.decompress(m.raw) if m.dict.get(b"Filter") == Name(b"FlateDecode") else m.raw)
                    for path, k, detail, _ in mism:
                        devs.append(Dev("C10:interleaved-documents:wrong-%s" % k, "%s document, at %s: %s; first: %s; second: V%d R%d %s" % (which, path, detail, desc, cfg2["v"], cfg2["r"], cfg2["cfm"])))
        except Exception as e:
            devs.append(Dev("C10:interleaved-documents:raise:%s@%s" % (type(e).__name__, where(e)), "%r; %s" % (e, desc)))
        scen.append(("second", cfg2["v"], cfg2["r"], cfg2["cfm"]))
    seen = {}
    for d in devs:
        seen.setdefault(d.sig, d)
    tape.note(scen)
    tape.note(len(enc_pdf))
    nontrivial = cfg["cfm"] != "Identity"
    sample = {"config": desc, "objects": len(objects), "file_bytes": len(enc_pdf), "passwords_tried": [s[0] for s in scen]}
    return Outcome(list(seen.values()), scen=repr((enc_pdf, scen)), nontrivial=nontrivial, sample=sample)


def jobs(tier, seed):
    import checks.c10 as me

    return core.std_jobs(me, tier, seed)
