"""C14 - tokenizer totality, progress and buffer-size independence (DESIGN 5/C14).

Workload : byte strings over an alphabet with representatives of every lexical class of
           psparser; a systematic sweep of all short strings plus seeded swarm sampling.
Schedule : the chunk seam - every constant read-buffer size 1..k and the default.
Oracle   : nothing but PSEOF is raised; token count and step count bounded by the input
           length; positions non-decreasing and inside the input; identical (pos, token)
           sequence for every buffer size.
"""
import itertools
from io import BytesIO

from sim import core, seams
from sim.core import Dev, Outcome

ID = "C14"
LEVEL = "exploration"
RULE = (
    "a case = one byte string tokenised with PSBaseParser.nexttoken() until PSEOF under every constant "
    "buffer size 1..k and the default (k=9 quick, 33 thorough; sweep cases: 1..len+1 and default). Strings come "
    "from an exhaustive sweep of all strings up to length L over a 31-byte class alphabet (L=3 quick, 4 thorough; "
    "length 5 over a reduced alphabet in thorough) and from seeded swarm sampling of lengths 1..64, plus (1 case in 300) a token of 4299..8193 bytes of one lexical class under sizes default/1/3/4097, plus (1 case in 4000) a run of 32767..131073 bytes under sizes default/1/4097/whole, plus (4 cases in 100) an opener, a run of 24..96 bytes of the class that may follow it, one foreign byte and the closer further on (CPU-time watchdog: work a regular expression does is bounded too). One case in four, and every enumerated one, is also tokenised with ONE tokenizer object used again: a pass to the end of input, seek(0) and seek(position of a delivered token), each followed by a pass under another buffer size, compared with a fresh tokenizer. "
    "distinct = distinct byte strings; non-trivial = the string yields at least one token and is at least 2 bytes long."
)
COMPONENTS_REAL = ["pdfminer.psparser.PSBaseParser (all scanners, fillbuf, nexttoken)"]
COMPONENTS_STUB = ["file object: io.BytesIO", "PSBaseParser.BUFSIZ: chunk seam", "step clock: sys.monitoring PY_START|JUMP"]
ASSUMPTIONS = [
    "buffer sizes are constant per tokenisation, as the statement says (varying sizes are exercised under C01)",
    "work bound: steps <= 60*(len+2) monitored events",
]
PROBES = ["tens of thousands of distinct symbols", "tokenized again under settings.STRICT", "token of 32 K bytes or more", "very long token", "refill inside string escape", "refill inside hex name escape", "refill inside number", "eof flush produced token"]
TIERS = {
    "quick": {"batches": 16, "runs": 25000, "budget_s": 90, "kmax": 9, "sweep_len": 3},
    "thorough": {"batches": 64, "runs": 40000, "budget_s": 900, "kmax": 33, "sweep_len": 4},
}
EXHAUSTIVE = {}
DETERMINISM_SLICE = 8

# one or two representatives per lexical class
ALPHABET = [
    b" ", b"\x00", b"\r", b"\n", b"0", b"7", b"9", b"+", b"-", b".", b"a", b"F", b"z", b"t", b"r",
    b"/", b"#", b"%", b"(", b")", b"<", b">", b"[", b"]", b"{", b"}", b"\\", b"\xe9", b"e", b"n", b"\t",
]
REDUCED = [b" ", b"\r", b"\n", b"7", b"9", b"a", b"/", b"#", b"(", b")", b"<", b">", b"\\", b"%"]
STEP_FACTOR = 60

_ready = False


def setup():
    global _ready, PSBaseParser, PSEOF, PSKeyword, PSLiteral
    if _ready:
        return
    core.import_sut()
    from pdfminer.psparser import PSEOF, PSBaseParser, PSKeyword, PSLiteral

    seams.install_chunk_seam()
    seams.CLOCK.install()
    _ready = True


def canon(t):
    if isinstance(t, PSKeyword):
        return ("K", t.name)
    if isinstance(t, PSLiteral):
        return ("L", t.name)
    if isinstance(t, bool):
        return ("B", t)
    if isinstance(t, int):
        return ("I", t)
    if isinstance(t, float):
        return ("F", repr(t))
    if isinstance(t, bytes):
        return ("S", t)
    return ("?", repr(t))


def where(exc):
    tb = exc.__traceback__
    name = "?"
    while tb is not None:
        fn = tb.tb_frame.f_code.co_filename
        if "pdfminer" in fn:
            name = tb.tb_frame.f_code.co_name
        tb = tb.tb_next
    return name


def tokenize(data, size, ctx, parser=None, start=None):
    """One pass to the end of input.  parser: an existing tokenizer object to be used again (seek(start) first)."""
    seams.CHUNK.policy = seams.const_chunks(size) if size else None
    toks = []
    err = None
    budget = STEP_FACTOR * (len(data) + 2)
    p = parser if parser is not None else PSBaseParser(BytesIO(data))
    seams.CLOCK.start(budget, cpu_s=10.0 + len(data) / 10000.0)
    try:
        if start is not None:
            p.seek(start)
        while True:
            pos, t = p.nexttoken()
            toks.append((pos, canon(t)))
            if len(toks) > len(data) + 2:
                err = "too-many-tokens"
                break
    except PSEOF:
        pass
    except seams.SimBudgetExceeded as e:
        # (the second form: CPU seconds spent where the step clock cannot see, e.g. inside a regular expression)
        err = "cpu-budget-exceeded" if "cpu" in str(e) else "step-budget-exceeded"
    except Exception as e:  # anything but PSEOF is a violation
        err = "raise:%s@%s" % (type(e).__name__, where(e))
    finally:
        steps = seams.CLOCK.stop()
        seams.CHUNK.policy = None
    ctx.steps += steps
    r = steps // (len(data) + 2)
    if r > ctx.probes.get("max steps per input byte", 0):
        ctx.probes["max steps per input byte"] = r
    return toks, err, steps


def check_string(data, sizes, ctx, reuse=None):
    devs = []
    ref = None
    ref_size = None
    for size in sizes:
        toks, err, steps = tokenize(data, size, ctx)
        ctx.seam("chunk")
        if err:
            devs.append(Dev("C14:%s" % err, "data=%r bufsize=%s tokens so far=%r" % (data, size or "default", toks[-3:])))
            continue
        last = 0
        for pos, _ in toks:
            if pos < last or pos < 0 or pos > len(data):
                devs.append(Dev("C14:bad-position", "data=%r bufsize=%s tokens=%r" % (data, size or "default", toks)))
                break
            last = pos
        if ref is None:
            ref, ref_size = toks, size
        elif toks != ref:
            devs.append(
                Dev(
                    "C14:bufsize-dependent",
                    "data=%r: bufsize=%s gives %r but bufsize=%s gives %r" % (data, ref_size or "default", ref, size or "default", toks),
                )
            )
    if reuse is not None and ref is not None and not devs:
        # one tokenizer object used again: after a pass to the end of input, seek() back to the start (and to the
        # position of a token it delivered) starts a new pass that owes nothing to the state the first one ended in
        size_a, size_b, k = reuse
        p = PSBaseParser(BytesIO(data))
        first, err, _ = tokenize(data, size_a, ctx, parser=p)
        for start, want in [(0, ref)] + ([(ref[k % len(ref)][0], ref[k % len(ref) :])] if ref else []):
            again, err2, _ = tokenize(data, size_b, ctx, parser=p, start=start)
            if err or err2:
                devs.append(Dev("C14:reuse:%s" % (err or err2), "data=%r: one tokenizer object, pass with bufsize=%s, then seek(%d) and a pass with bufsize=%s" % (data, size_a or "default", start, size_b or "default")))
                break
            if again != want:
                devs.append(
                    Dev(
                        "C14:reuse-dependent",
                        "data=%r: one tokenizer object, after a pass to the end of input (bufsize=%s) seek(%d) and a second pass (bufsize=%s) give %r; a fresh tokenizer gives %r"
                        % (data, size_a or "default", start, size_b or "default", again[:6], want[:6]),
                    )
                )
                break
        ctx.probe("one tokenizer object used for several passes (seek)")
    # de-duplicate signatures, keep the first message of each
    seen = {}
    for d in devs:
        seen.setdefault(d.sig, d)
    return list(seen.values()), ref or []


def gen_long(tape):
    """A very long token (thousands of bytes of one lexical class) with a little context around it."""
    ch = tape.pick([b"1", b"7", b"9", b"a", b"(", b"<", b"A", b"#", b".", b"\\", b"%", b"\x00", b" ", b"4 1 ", b"a\n", b"0 \r\n", b"(a)", b"\\\n"], "long.ch")
    n = tape.pick([4299, 4300, 4301, 4400, 5000, 8193], "long.n")
    pre = tape.pick([b"", b" ", b"/", b"(", b"<", b"-", b"+", b"1.", b"[ "], "long.pre")
    post = tape.pick([b"", b" ", b")", b">", b" ]", b"\n/x", b"!"], "long.post")
    return pre + (ch * n)[:n] + post


def gen_string(tape):
    mix = tape.pick(["uniform", "string", "name", "number", "delim", "raw", "words"], "mix")
    n = 1 + tape.draw(64 if not tape.coin(70, 100, "short") else 12, "len")
    if mix == "raw":
        return tape.bytes(n, "raw")
    pools = {
        "uniform": ALPHABET,
        "string": [b"(", b")", b"\\", b"\r", b"\n", b"7", b"0", b"9", b"a", b"n", b" ", b"(", b"\\"],
        "name": [b"/", b"#", b"a", b"F", b"0", b"9", b"z", b" ", b"\x00", b"[", b"#", b"/", b"%", b"\n"],
        "number": [b"0", b"9", b"+", b"-", b".", b" ", b"e", b"7", b"/", b"\r"],
        # the words of the language, whole and in pieces (a keyword with a value of its own is that value wherever a refill falls)
        "words": [b"true", b"false", b"null", b"false", b"fals", b"e", b"tru", b"ue", b"nul", b"l", b"R", b"obj", b"endobj", b"stream", b" ", b" ", b"\n", b"/", b"[", b"]", b"(", b")", b"<<", b">>", b"1", b"%", b"."],
        "delim": [b"<", b">", b"[", b"]", b"{", b"}", b"<", b">", b"a", b"F", b"0", b" ", b"%", b"\n", b"(", b")"],
    }[mix]
    return b"".join(tape.pick(pools, "b") for _ in range(n))


def gen_runbreak(tape):
    """An opener, a run of some dozens of bytes of the class that may follow it (white space interspersed or not), ONE byte
    that does not belong there, and the closer further on: what a scanner that looks ahead for the end of its token meets
    when the token is damaged."""
    opener, cls, closer = tape.pick(
        [
            (b"<", [b"4", b"a", b"F", b"0", b"9"], b">"),
            (b"<", [b"4", b"1", b" ", b"e", b"\n"], b">"),
            (b"<<", [b"/A ", b"1 ", b"<41>", b"(a)"], b">>"),
            (b"(", [b"a", b"\\(", b"\\)", b"\\7", b"(", b" "], b")"),
            (b"/", [b"a", b"#41", b"#4", b"Z", b"#"], b" "),
            (b"", [b"1", b"7", b"0", b"9"], b" "),
            (b"-", [b"1", b".", b"0", b"7"], b" "),
            (b"%", [b"a", b" ", b"%", b"\t"], b"\n"),
            (b"[", [b"1 ", b"/a", b"[", b"<4>"], b"]"),
        ],
        "rb.kind",
    )
    n = tape.pick([24, 27, 30, 33, 40, 48, 64, 96], "rb.n")
    run = b"".join(tape.pick(cls, "rb.b") for _ in range(n)) if tape.coin(1, 2, "rb.mixed") else cls[0] * n
    foreign = tape.pick([b"g", b"z", b"!", b"\x00", b"\xe9", b"(", b"<", b"/", b"%", b"\\", b"#", b"{", b"-", b"."], "rb.foreign")
    tail = tape.pick([b"", b" ", b"41", b"\n/x 1", b" a b"], "rb.tail")
    end = tape.pick([closer, closer, b"", b">>", b">", b")"], "rb.end")
    return tape.pick([b"", b" ", b"/ID ", b"1 0 obj "], "rb.pre") + opener + run + foreign + tail + end + tape.pick([b"", b" x", b"\n"], "rb.post")


RUNS = [0]
INTERNED = []


def _interned():
    from pdfminer import pdfdocument, pdfpage, psparser

    out = [(psparser.KEYWORD_ARRAY_BEGIN, lambda: psparser.KWD(b"[")), (psparser.KEYWORD_DICT_END, lambda: psparser.KWD(b">>")), (psparser.KEYWORD_PROC_BEGIN, lambda: psparser.KWD(b"{"))]
    out += [(pdfpage.LITERAL_PAGE, lambda: psparser.LIT("Page")), (pdfdocument.LITERAL_CATALOG, lambda: psparser.LIT("Catalog"))]
    return out


def run(tape, ctx, item=None):
    if not INTERNED:
        INTERNED.extend(_interned())
    kmax = TIERS[ctx.tier]["kmax"]
    if item is not None:
        data = bytes.fromhex(item["data"])
        sizes = [0] + list(range(1, min(len(data), kmax) + 2))
    elif tape.coin(1, 6000, "manysymbols"):
        # tens of thousands of distinct names and keywords in one input: the intern tables grow, the symbols stay what they are
        n = tape.pick([40000, 70000], "manysymbols.n")
        base = tape.draw(1000, "manysymbols.base")
        data = b" ".join((b"/n%dx%d" if i % 2 else b"k%dx%d") % (base, i) for i in range(n))
        sizes = [0, 4097]
        ctx.probe("tens of thousands of distinct symbols")
    elif tape.coin(1, 4000, "huge"):
        # a run of one lexical class tens of thousands of bytes long (lengths around powers of two, where fixed
        # limits tend to sit): the token sequence may still not depend on the buffer size
        ch = tape.pick([b"a", b"7", b"A", b"(", b"<4", b"/n", b"%", b" ", b"."], "huge.ch")
        n = tape.pick([32767, 32768, 65535, 65536, 65537, 70000, 131073], "huge.n")
        data = tape.pick([b"", b" ", b"/", b"(", b"<"], "huge.pre") + (ch * n)[:n] + tape.pick([b"", b" ", b")", b">", b" x"], "huge.post")
        sizes = [0, 4097, len(data) + 7] + ([1] if n <= 70000 else [3])
        ctx.probe("token of 32 K bytes or more")
    elif tape.coin(1, 300, "long"):
        data = gen_long(tape)
        sizes = [0, 1, 3, 4097]
        ctx.probe("very long token")
    elif tape.coin(4, 100, "runbreak"):
        data = gen_runbreak(tape)
        sizes = [0, 1, 7, 64, len(data) + 3]
        ctx.probe("long run of one class broken by a foreign byte before the closer")
    else:
        data = gen_string(tape)
        if tape.coin(3, 100, "magic"):
            # byte sequences that other formats give a meaning to at the start of a file are bytes like any others here
            data = tape.pick([b"\xef\xbb\xbf", b"\xff\xfe", b"\xfe\xff", b"\x00\x00\xfe\xff", b"%PDF-1.7\n", b"\x1f\x8b", b"#!"], "magic.bytes") + data
        sizes = [0] + list(range(1, kmax + 1))
    reuse = None
    if item is None and len(data) < 5000 and tape.coin(25, 100, "reuse"):
        reuse = (tape.pick(sizes, "reuse.a"), tape.pick(sizes, "reuse.b"), tape.draw(64, "reuse.k"))
    elif item is not None:
        reuse = (0, 1 + len(data) % 3, len(data))
    devs, toks = check_string(data, sizes, ctx, reuse=reuse)
    if item is None and tape.coin(8, 100, "strict"):
        # the library's strict mode is a setting of the object layers above; the tokenizer reads the same tokens under it
        ctx.probe("tokenized again under settings.STRICT")
        from pdfminer import settings as _settings

        _settings.STRICT = True
        try:
            devs2, toks2 = check_string(data, sizes[:2], ctx)
        finally:
            _settings.STRICT = False
        for d in devs2:
            devs.append(Dev(d.sig + ":strict", "under settings.STRICT: " + d.msg))
        if not devs2 and not devs and toks2 != toks:
            devs.append(Dev("C14:strict-dependent", "data=%r: default mode gives %r, strict mode %r" % (data, toks, toks2)))
    if b"\\" in data and b"(" in data:
        ctx.probe("refill inside string escape")
    if b"#" in data and b"/" in data:
        ctx.probe("refill inside hex name escape")
    if any(k[1][0] in "IF" for k in toks):
        ctx.probe("refill inside number")
    if toks and toks[-1][0] + 1 >= len(data) - 8:
        ctx.probe("eof flush produced token")
    # names and keywords are interned: the symbols the library created at import are still the ones a lookup gives
    for sym, fresh in INTERNED:
        if fresh() is not sym:
            devs.append(Dev("C14:interning-lost", "%r is no longer the object the library created at import (after %d tokenised strings in this process)" % (sym, RUNS[0])))
            break
    RUNS[0] += 1
    tape.note(toks)
    sample = {"data": repr(data), "sizes": "default+1..%d" % (len(sizes) - 1), "tokens": repr(toks)[:300]}
    return Outcome(devs, scen=data.hex(), nontrivial=bool(toks) and len(data) >= 2, sample=sample, item={"data": data.hex()})


def jobs(tier, seed):
    p = TIERS[tier]
    js = []
    # systematic floor: all strings up to sweep_len over ALPHABET, partitioned by first byte
    for i in range(len(ALPHABET)):
        js.append({"kind": "sweep", "batch": i, "first": i, "maxlen": p["sweep_len"], "alpha": "full"})
    if tier == "thorough":
        for i in range(len(REDUCED)):
            js.append({"kind": "sweep", "batch": 100 + i, "first": i, "maxlen": 5, "alpha": "reduced", "minlen": 5})
    js += core.std_jobs(__import__("checks.c14", fromlist=["x"]), tier, seed)
    return js


def items(job):
    alpha = ALPHABET if job["alpha"] == "full" else REDUCED
    first = alpha[job["first"]]
    for n in range(job.get("minlen", 1), job["maxlen"] + 1):
        for rest in itertools.product(alpha, repeat=n - 1):
            yield {"data": (first + b"".join(rest)).hex()}


def shrink_item(item):
    data = bytes.fromhex(item["data"])
    for i in range(len(data)):
        yield {"data": (data[:i] + data[i + 1 :]).hex()}
