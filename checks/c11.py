"""C11 - converters: text output is the tree's text; XML is well-formed and faithful (DESIGN 5/C11).

Workload : generated documents with text (ToUnicode maps producing XML-special, control and astral characters), font
           names and XObject names containing & < > " ' and non-ASCII, figures, shapes, images; LAParams variants.
Schedule : the *sink* seam - StringIO, TextIOWrapper, BytesIO + codec (utf-8, utf-16-le/be, utf-32-le, latin-1 / cp1252
           / ascii when representable), objects with a mode attribute ('w', 'wb'), duck-typed sinks; strip_control.
Oracle   : text output == in-order concatenation of the text of the LTPage tree from extract_pages on the same bytes
           (+ "\\n" after each text box, "\\f" per page); XML parses with expat and its element tree maps 1:1 onto the
           LTPage tree; decoding the binary sink with its codec yields the text sink's characters.
"""
import io
import xml.parsers.expat
from fractions import Fraction as F

from sim import core, docs, gfx, seams
from sim.core import Dev, Outcome
from sim.gfx import Op
from sim.oracle import where
from sim.scratch import Scratch
from sim.pdfwriter import Name, Ref, Ser, Str

ID = "C11"
LEVEL = "exploration"
RULE = (
    "a case = one generated document (1..3 pages of text lines, form XObjects, shapes, images, with document-controlled "
    "names and ToUnicode targets drawn from a pool rich in XML-special, control, non-ASCII and astral characters) and one "
    "LAParams variant; it is converted to text and to XML into 2..3 tape-chosen sinks each and compared with the LTPage "
    "tree of extract_pages. distinct = distinct (document bytes, LAParams, sink kind, codec, strip_control); non-trivial = "
    "the document contains at least one XML-special or non-ASCII character in text or in a name."
)
COMPONENTS_REAL = ["pdfminer.converter.TextConverter / XMLConverter / PDFConverter._is_binary_stream", "pdfminer.utils.enc / bbox2str", "pdfminer.high_level.extract_text_to_fp / extract_text / extract_pages", "pdfminer.layout"]
COMPONENTS_STUB = ["sinks: io.StringIO, io.TextIOWrapper, io.BytesIO, objects with a mode attribute, duck-typed writers (the simulated output seam)", "XML reader: xml.parsers.expat"]
ASSUMPTIONS = [
    "codecs without a per-write BOM (utf-16/utf-32 with BOM are excluded: each write would emit its own BOM)",
    "XML well-formedness in the presence of control characters is required only with strip_control=True",
    "characters that XML 1.0 cannot represent at all (U+FFFE, U+FFFF, lone surrogates) are not generated",
]
PROBES = ["plain text without layout analysis", "strip_control with plain text", "text sink with a narrow codec argument", "page box degenerate or displaced", "rotated or mirrored text", "earlier job aborted inside a form", "page selection: none", "page selection: first", "page selection: odd", "xml with exported images", "sink:StringIO", "sink:TextIOWrapper", "sink:BytesIO", "sink:mode-w", "sink:mode-wb", "sink:duck", "codec:utf-16-le", "codec:utf-32-le", "codec:latin-1", "special char in text", "control char in text", "astral char in text", "special char in font name", "special char in figure name", "strip_control", "figure", "shape", "image", "boxes_flow None", "vertical text box"]
TIERS = {
    "quick": {"batches": 16, "runs": 350, "budget_s": 90},
    "thorough": {"batches": 128, "runs": 500, "budget_s": 1200},
}
DETERMINISM_SLICE = 4
_ready = False


def setup():
    global _ready, HL, L, LAParams
    if _ready:
        return
    core.import_sut()
    import pdfminer.high_level as HL
    import pdfminer.layout as L
    from pdfminer.layout import LAParams

    _ready = True


TARGETS = ["A", "b", "&", "<", ">", '"', "'", "&amp;", "]]>", "é", "ß", "Ж", "中", "\U0001F600", "\t", "\x01", "\x0b", "\x1f", " ", "x<y>&z", "​", "ﬁ", "f\x0ci", "a\x01b", "\x02\x03", "<\x1f>", "\ufeff", "a\ufeffb", "%", "%d%s", "{}", "\\n", "\x7f", "\u2028"]
NAMES = [b"Plain", b"A&B", b"x<y", b"q\"uote", b"it's", b"a>b", b"na\xc3\xafve", b"semi;colon", b"A B", b"&lt;", b"Fm1", b"Half%Tone", b"Rate%s", b"100%%Pure", b"{0}", b"a\\1b", b"%(x)s", b"ABCDEF+Sub-Font", b"Trailing+", b"a+b+c"]
LA = {"default": {}, "noflow": {"boxes_flow": None}, "alltexts": {"all_texts": True}, "vertical": {"detect_vertical": True, "all_texts": True}, "tight": {"char_margin": 0.5, "line_margin": 0.1}}


def tounicode(mapping):
    lines = [b"/CIDInit /ProcSet findresource begin", b"12 dict begin", b"begincmap", b"/CMapName /X def", b"/CMapType 2 def", b"1 begincodespacerange", b"<00> <FF>", b"endcodespacerange", b"%d beginbfchar" % len(mapping)]
    for code, s in sorted(mapping.items()):
        lines.append(b"<%02X> <%s>" % (code, s.encode("utf-16-be").hex().upper().encode()))
    lines += [b"endbfchar", b"endcmap", b"end", b"end"]
    return b"\n".join(lines)


def pdf_name(nm):
    s = Ser()
    s.name(Name(nm))
    return bytes(s.out)


def build_document(t, ctx):
    objects = {}
    nxt = [3]

    def alloc(v):
        nxt[0] += 1
        objects[nxt[0]] = v
        return Ref(nxt[0], 0)

    special = False
    # fonts: two fonts with ToUnicode maps over codes 0x41..0x4A and document-controlled names
    fonts = {}
    for fi in range(2):
        mapping = {}
        for code in range(0x41, 0x4B):
            s = t.pick(TARGETS, "tu.target")
            mapping[code] = s
            if any(c in "&<>\"'" for c in s):
                ctx.probe("special char in text")
                special = True
            if any(ord(c) < 32 and c not in "\t\n\r" for c in s):
                ctx.probe("control char in text")
            if any(ord(c) > 0xFFFF for c in s):
                ctx.probe("astral char in text")
            if any(ord(c) > 127 for c in s):
                special = True
        fname = t.pick(NAMES, "font.name")
        if any(c in b"&<>\"'" for c in fname) or any(c > 127 for c in fname):
            ctx.probe("special char in font name")
            special = True
        tu = alloc(docs.content_stream(tounicode(mapping)))
        fd = alloc({b"Type": Name(b"FontDescriptor"), b"FontName": Name(fname), b"Flags": 32, b"FontBBox": [0, -200, 1000, 900], b"ItalicAngle": 0, b"Ascent": 800, b"Descent": -200, b"CapHeight": 700, b"StemV": 80})
        fonts[b"F%d" % (fi + 1)] = alloc({b"Type": Name(b"Font"), b"Subtype": Name(b"TrueType"), b"BaseFont": Name(fname), b"FirstChar": 0x41, b"LastChar": 0x4A, b"Widths": [500 + 20 * i for i in range(10)], b"FontDescriptor": fd, b"ToUnicode": tu})
    # a form XObject and an image with document-controlled names
    xobjs = {}
    formname = t.pick(NAMES, "form.name")
    if any(c in b"&<>\"'" for c in formname) or any(c > 127 for c in formname):
        ctx.probe("special char in figure name")
        special = True
    xobjs[formname] = alloc(docs.content_stream(b"BT /F1 9 Tf 5 5 Td (ABC) Tj ET 0 0 30 30 re S", extra={b"Type": Name(b"XObject"), b"Subtype": Name(b"Form"), b"BBox": [0, 0, 100, 100], b"Matrix": [1, 0, 0, 1, 300, 300], b"Resources": {b"Font": {b"F1": fonts[b"F1"]}}}))
    imgname = t.pick([n for n in NAMES if n != formname], "img.name")
    xobjs[imgname] = alloc(docs.content_stream(bytes(range(6)), extra={b"Type": Name(b"XObject"), b"Subtype": Name(b"Image"), b"Width": 3, b"Height": 2, b"BitsPerComponent": 8, b"ColorSpace": Name(b"DeviceGray")}))
    kids = []
    npages = t.rint(1, 3, "npages")
    for p in range(npages):
        parts = []
        y = 720
        for _ in range(t.rint(1, 6, "lines")):
            k = t.draw(8, "item")
            if k <= 3 and t.coin(15, 100, "rotated"):
                # text under a rotated, mirrored or sheared text matrix: its size in the tree is not its box height
                txt = bytes(t.rint(0x41, 0x4A, "ch") for _ in range(t.rint(1, 5, "len")))
                tm = t.pick([b"0 1 -1 0", b"0 -1 1 0", b"-1 0 0 1", b"1 0 0 -1", b"0.7 0.7 -0.7 0.7", b"1 0 0.5 1", b"2 0 0 0.5"], "tm")
                parts.append(b"BT /F%d %d Tf %s %d %d Tm (%s) Tj ET" % (t.rint(1, 2, "f"), t.pick([9, 12], "sz"), tm, t.rint(100, 500, "rx"), t.rint(100, 600, "ry"), txt))
                ctx.probe("rotated or mirrored text")
            elif k <= 3:
                txt = bytes(t.rint(0x41, 0x4A, "ch") for _ in range(t.rint(1, 8, "len")))
                x = t.pick([50, 50, 72, 320], "x")
                parts.append(b"BT /F%d %d Tf %d %d Td (%s) Tj ET" % (t.rint(1, 2, "f"), t.pick([9, 10, 12], "sz"), x, y, txt))
                y -= t.pick([12, 14, 30, 60], "dy")
            elif k == 4:
                parts.append(b"q 1 0 0 1 %d %d cm " % (t.rint(0, 100, "fx"), t.rint(0, 100, "fy")) + pdf_name(formname) + b" Do Q")
                ctx.probe("figure")
            elif k == 5:
                parts.append(b"%d w %d %d m %d %d l S" % (t.rint(0, 5, "lw"), t.rint(0, 500, "a"), t.rint(0, 500, "b"), t.rint(0, 500, "c"), t.rint(0, 500, "d")))
                parts.append(b"%d %d %d %d re f" % (t.rint(0, 400, "rx"), t.rint(0, 400, "ry"), t.rint(1, 100, "rw"), t.rint(1, 100, "rh")))
                parts.append(b"10 10 m 20 40 60 40 80 10 c S")
                ctx.probe("shape")
            elif k == 6:
                parts.append(b"q 30 0 0 20 %d %d cm " % (t.rint(0, 400, "ix"), t.rint(0, 600, "iy")) + pdf_name(imgname) + b" Do Q")
                ctx.probe("image")
            else:
                # vertical run of single characters (a candidate for a vertical text box)
                x = t.pick([500, 540], "vx")
                for i in range(t.rint(2, 5, "vn")):
                    parts.append(b"BT /F1 10 Tf %d %d Td (%s) Tj ET" % (x, 700 - 12 * i, bytes((t.rint(0x41, 0x4A, "vch"),))))
        c = alloc(docs.content_stream(b"\n".join(parts)))
        mediabox = [0, 0, 612, 792]
        if t.coin(6, 100, "mediabox.odd"):
            # a page box without area, far from the origin, or tiny: the text on the page is text all the same
            mediabox = t.pick([[0, 0, 300, 0], [40, 0, 40, 200], [0, 0, 0, 0], [1000, 1000, 1612, 1792], [0, 0, 1, 1], [-300, -300, 312, 492]], "mediabox.odd.box")
            ctx.probe("page box degenerate or displaced")
        kids.append(alloc({b"Type": Name(b"Page"), b"Parent": Ref(2, 0), b"MediaBox": mediabox, b"Contents": c, b"Resources": {b"Font": fonts, b"XObject": xobjs}}))
    objects[1] = {b"Type": Name(b"Catalog"), b"Pages": Ref(2, 0)}
    objects[2] = {b"Type": Name(b"Pages"), b"Kids": kids, b"Count": len(kids)}
    return docs.build_pdf(objects, 1).getvalue(), special


# ------------------------------------------------------------------------------------ sinks
class ModeText:
    mode = "w"

    def __init__(self):
        self.parts = []

    def write(self, s):
        if not isinstance(s, str):
            raise TypeError("text sink got %r" % type(s))
        self.parts.append(s)

    def value(self):
        return "".join(self.parts)


class ModeBinary:
    mode = "wb"

    def __init__(self):
        self.parts = []

    def write(self, b):
        if not isinstance(b, (bytes, bytearray)):
            raise TypeError("binary sink got %r" % type(b))
        self.parts.append(bytes(b))

    def value(self):
        return b"".join(self.parts)


class Duck:
    """No mode attribute, not an io class: PDFConverter treats it as binary."""

    def __init__(self):
        self.parts = []

    def write(self, b):
        if not isinstance(b, (bytes, bytearray)):
            raise TypeError("duck sink got %r" % type(b))
        self.parts.append(bytes(b))

    def value(self):
        return b"".join(self.parts)


def make_sink(t, ctx, chars):
    kind = t.pick(["StringIO", "BytesIO", "BytesIO", "mode-w", "mode-wb", "duck", "TextIOWrapper"], "sink.kind")
    ctx.probe("sink:" + kind)
    ctx.seam("sink")
    if kind == "StringIO":
        s = io.StringIO()
        return kind, s, None, (lambda: s.getvalue())
    if kind == "TextIOWrapper":
        raw = io.BytesIO()
        w = io.TextIOWrapper(raw, encoding="utf-8", newline="")
        return kind, w, None, (lambda: (w.flush(), raw.getvalue().decode("utf-8"))[1])
    if kind == "mode-w":
        s = ModeText()
        return kind, s, None, s.value
    codecs = ["utf-8", "utf-8", "utf-16-le", "utf-16-be", "utf-32-le"]
    for c in ("latin-1", "cp1252", "ascii"):
        try:
            chars.encode(c)
            codecs.append(c)
        except UnicodeEncodeError:
            pass
    codec = t.pick(codecs, "sink.codec")
    if codec in ("utf-16-le", "utf-32-le", "latin-1"):
        ctx.probe("codec:" + codec)
    if kind == "BytesIO":
        s = io.BytesIO()
        return kind, s, codec, (lambda: s.getvalue().decode(codec))
    s = ModeBinary() if kind == "mode-wb" else Duck()
    return kind, s, codec, (lambda: s.value().decode(codec))


# ------------------------------------------------------------------------------------ oracles
def tree_text(item, stripc=False):
    """stripc: the control characters of the leaf texts left out (the line breaks and form feeds of the structure stay)."""
    if isinstance(item, L.LTTextBox):
        return "".join(tree_text(c, stripc) for c in item) + "\n"
    if isinstance(item, L.LTContainer):
        return "".join(tree_text(c, stripc) for c in item)
    if isinstance(item, L.LTText):
        return strip(item.get_text()) if stripc else item.get_text()
    return ""


def walk(item):
    yield item
    if isinstance(item, L.LTContainer):
        for c in item:
            yield from walk(c)


def fbox(b):
    return "%.3f,%.3f,%.3f,%.3f" % tuple(b)


CONTROL = set(range(0, 9)) | {0x0B, 0x0C} | set(range(0x0E, 0x20))


def strip(s):
    return "".join(c for c in s if ord(c) not in CONTROL)


def expected_xml_tree(item, stripc):
    """-> nested [tag, attrs, children, text] mirroring what a faithful XML rendering of the tree must contain."""
    if isinstance(item, L.LTPage):
        kids = [expected_xml_tree(c, stripc) for c in item]
        if item.groups is not None:
            kids.append(["layout", {}, [expected_group(g) for g in item.groups], ""])
        return ["page", {"id": str(item.pageid), "bbox": fbox(item.bbox), "rotate": "%d" % item.rotate}, kids, ""]
    if isinstance(item, L.LTLine):
        return ["line", {"linewidth": "%d" % item.linewidth, "bbox": fbox(item.bbox)}, [], ""]
    if isinstance(item, L.LTRect):
        return ["rect", {"linewidth": "%d" % item.linewidth, "bbox": fbox(item.bbox)}, [], ""]
    if isinstance(item, L.LTCurve):
        return ["curve", {"linewidth": "%d" % item.linewidth, "bbox": fbox(item.bbox), "pts": ",".join("%.3f,%.3f" % p for p in item.pts)}, [], ""]
    if isinstance(item, L.LTFigure):
        return ["figure", {"name": item.name, "bbox": fbox(item.bbox)}, [expected_xml_tree(c, stripc) for c in item], ""]
    if isinstance(item, L.LTTextLine):
        return ["textline", {"bbox": fbox(item.bbox)}, [expected_xml_tree(c, stripc) for c in item], ""]
    if isinstance(item, L.LTTextBox):
        a = {"id": "%d" % item.index, "bbox": fbox(item.bbox)}
        if isinstance(item, L.LTTextBoxVertical):
            a["wmode"] = "vertical"
        return ["textbox", a, [expected_xml_tree(c, stripc) for c in item], ""]
    if isinstance(item, L.LTChar):
        txt = item.get_text()
        return ["text", {"font": item.fontname, "bbox": fbox(item.bbox), "colourspace": item.ncs.name, "ncolour": str(item.graphicstate.ncolor), "size": "%.3f" % item.size}, [], strip(txt) if stripc else txt]
    if isinstance(item, L.LTText):
        return ["text", {}, [], item.get_text()]
    if isinstance(item, L.LTImage):
        return ["image", {"width": "%d" % item.width, "height": "%d" % item.height}, [], ""]
    raise core.HarnessError("unexpected layout item %r" % (item,))


def expected_group(g):
    if isinstance(g, L.LTTextBox):
        return ["textbox", {"id": "%d" % g.index, "bbox": fbox(g.bbox)}, [], ""]
    return ["textgroup", {"bbox": fbox(g.bbox)}, [expected_group(c) for c in g], ""]


def parse_xml(text):
    """expat -> nested [tag, attrs, children, text]; raises ExpatError for ill-formed input."""
    root = ["#root", {}, [], ""]
    stack = [root]
    p = xml.parsers.expat.ParserCreate()
    p.buffer_text = True

    def start(tag, attrs):
        node = [tag, dict(attrs), [], ""]
        stack[-1][2].append(node)
        stack.append(node)

    def end(tag):
        stack.pop()

    def chars(data):
        stack[-1][3] += data

    p.StartElementHandler = start
    p.EndElementHandler = end
    p.CharacterDataHandler = chars
    p.Parse(text, True)
    return root


def norm_ws(node):
    """Drop the white space the converter puts between elements (character data of non-text elements)."""
    tag, attrs, kids, text = node
    return [tag, attrs, [norm_ws(k) for k in kids], text if tag == "text" else ""]


def diff_tree(a, b, path="pages"):
    """First difference between expected tree a and parsed tree b, or None."""
    if a[0] != b[0]:
        return "%s: element <%s>, tree has %s" % (path, b[0], a[0])
    if a[1] != b[1]:
        keys = sorted(set(a[1]) | set(b[1]))
        k = [k for k in keys if a[1].get(k) != b[1].get(k)][0]
        return "%s/<%s>: attribute %s=%r, tree gives %r" % (path, a[0], k, b[1].get(k), a[1].get(k))
    if a[0] == "text" and a[3] != b[3]:
        return "%s/<text>: character data %r, tree gives %r" % (path, b[3], a[3])
    if len(a[2]) != len(b[2]):
        return "%s/<%s>: %d child elements %s, tree has %d %s" % (path, a[0], len(b[2]), [k[0] for k in b[2]][:8], len(a[2]), [k[0] for k in a[2]][:8])
    for i, (x, y) in enumerate(zip(a[2], b[2])):
        d = diff_tree(x, y, "%s/%s[%d]" % (path, a[0], i))
        if d:
            return d
    return None


def _doomed():
    o = {
        1: {b"Type": Name(b"Catalog"), b"Pages": Ref(2, 0)},
        2: {b"Type": Name(b"Pages"), b"Kids": [Ref(3, 0)], b"Count": 1},
        3: {b"Type": Name(b"Page"), b"Parent": Ref(2, 0), b"MediaBox": [0, 0, 612, 792], b"Contents": Ref(4, 0), b"Resources": {b"XObject": {b"Fm1": Ref(5, 0)}}},
        4: docs.content_stream(b"q /Fm1 Do Q"),
        5: docs.content_stream(b"0 0 m 10 10 l S xyzzy 1 1 m 2 2 l S", extra={b"Type": Name(b"XObject"), b"Subtype": Name(b"Form"), b"BBox": [0, 0, 100, 100]}),
    }
    return docs.build_pdf(o, 1).getvalue()


DOOMED = _doomed()


def run(tape, ctx, item=None):
    t = tape
    devs = []
    data, special = build_document(t, ctx)
    lakey = t.pick(sorted(LA), "la")
    if lakey == "noflow":
        ctx.probe("boxes_flow None")
    la = lambda: LAParams(**LA[lakey])  # noqa: E731
    # page selection: all pages, a subset, or a selection that matches no page at all (output without any page)
    selkind = t.pick(["all", "all", "all", "all", "none", "first", "odd"], "select")
    sel = {"all": None, "none": {57}, "first": {0}, "odd": {1, 3}}[selkind]
    if selkind != "all":
        ctx.probe("page selection: " + selkind)
    doomed = t.coin(10, 100, "doomed")
    if doomed:
        # an earlier job in this process that ends with an exception in the middle of a form XObject (strict mode, unknown
        # operator): whatever it leaves behind belongs to its own converter, not to the ones created afterwards
        ctx.probe("earlier job aborted inside a form")
        from pdfminer import settings as _settings

        _settings.STRICT = True
        try:
            HL.extract_text_to_fp(io.BytesIO(DOOMED), io.BytesIO(), output_type=t.pick(["text", "xml", "html"], "doomed.type"), codec="utf-8")
            raise core.HarnessError("the doomed document did not fail")
        except core.HarnessError:
            raise
        except Exception:
            pass
        finally:
            _settings.STRICT = False
    try:
        pages = list(HL.extract_pages(io.BytesIO(data), laparams=la(), page_numbers=sel))
    except Exception as e:
        if doomed:
            # the generated document is well-formed (it extracts in every run without the earlier job)
            dv = Dev("C11:after-aborted-job:raise:%s@%s" % (type(e).__name__, where(e)), "a well-formed document fails after an earlier job of this process ended with an exception inside a form: %r" % (e,))
            tape.note("after-aborted-job")
            return Outcome([dv], scen=repr(data), nontrivial=True, sample={"pages": 0, "laparams": lakey, "text": "", "sinks": []})
        raise core.HarnessError("generated document does not extract: %r" % (e,))
    if any(isinstance(x, L.LTTextBoxVertical) for p in pages for x in p):
        ctx.probe("vertical text box")
    want_text = "".join(tree_text(p) + "\f" for p in pages)
    scen = []
    # ---------------- text output
    for _ in range(t.rint(2, 3, "ntext")):
        kind, sink, codec, read = make_sink(t, ctx, want_text)
        # a text sink receives characters: the codec argument has nothing to encode there, whatever it is
        codec_arg = codec or t.pick(["utf-8", "utf-8", "ascii", "latin-1", "cp1252", "utf-16-le"], "text.codecarg")
        # strip_control is an option of the XML output; asked for with plain text it may at most drop the control
        # characters of the glyph texts, never the line breaks and form feeds that render the structure
        stripc_t = t.coin(25, 100, "text.stripc")
        if stripc_t:
            ctx.probe("strip_control with plain text")
        if not codec and codec_arg != "utf-8":
            ctx.probe("text sink with a narrow codec argument")
        cfg = "output=text sink=%s codec=%s strip_control=%s laparams=%s pages=%s" % (kind, codec_arg, stripc_t, lakey, selkind)
        try:
            HL.extract_text_to_fp(io.BytesIO(data), sink, output_type="text", codec=codec_arg, laparams=la(), page_numbers=sel, strip_control=stripc_t)
            got = read()
        except Exception as e:
            devs.append(Dev("C11:text:raise:%s@%s" % (type(e).__name__, where(e)), "%r; %s" % (e, cfg)))
            continue
        if stripc_t and got != want_text and got == "".join(tree_text(p, True) + "\f" for p in pages):
            pass  # the glyph texts without their control characters, the structure intact
        elif got != want_text:
            n = next((i for i, (x, y) in enumerate(zip(got, want_text)) if x != y), min(len(got), len(want_text)))
            devs.append(Dev("C11:text:differs-from-tree" + (":binary-sink" if codec else ":text-sink"), "at char %d: output %r, tree gives %r; %s" % (n, got[max(0, n - 15) : n + 15], want_text[max(0, n - 15) : n + 15], cfg)))
        scen.append(cfg)
    if t.coin(20, 100, "text.nolayout"):
        # no layout parameters at all: extract_text_to_fp then writes the unanalysed tree (the glyphs in showing order, one
        # form feed per page) - the tree a PDFPageAggregator without layout parameters builds
        ctx.probe("plain text without layout analysis")
        try:
            from pdfminer.converter import PDFPageAggregator
            from pdfminer.pdfinterp import PDFPageInterpreter, PDFResourceManager
            from pdfminer.pdfpage import PDFPage

            rm = PDFResourceManager()
            agg = PDFPageAggregator(rm, laparams=None)
            interp = PDFPageInterpreter(rm, agg)
            flat = []
            for pg in PDFPage.get_pages(io.BytesIO(data), sel):
                interp.process_page(pg)
                flat.append(agg.get_result())
            want_flat = "".join(tree_text(p) + "\f" for p in flat)
            kind, sink, codec, read = make_sink(t, ctx, want_flat)
            HL.extract_text_to_fp(io.BytesIO(data), sink, output_type="text", codec=codec or "utf-8", laparams=None, page_numbers=sel)
            got = read()
            if got != want_flat:
                n = next((i for i, (x, y) in enumerate(zip(got, want_flat)) if x != y), min(len(got), len(want_flat)))
                devs.append(Dev("C11:text:differs-from-tree:no-layout", "at char %d: output %r, the unanalysed tree gives %r; sink=%s codec=%s laparams=None pages=%s" % (n, got[max(0, n - 15) : n + 15], want_flat[max(0, n - 15) : n + 15], kind, codec, selkind)))
        except Exception as e:
            devs.append(Dev("C11:text:raise:%s@%s" % (type(e).__name__, where(e)), "%r; output=text laparams=None pages=%s" % (e, selkind)))
    try:
        xcodec = t.pick(["utf-8", "utf-8", "ascii", "latin-1", "cp1252"], "extract_text.codec")
        if HL.extract_text(io.BytesIO(data), laparams=la(), page_numbers=sel, codec=xcodec) != want_text:
            devs.append(Dev("C11:extract_text-differs-from-tree", "laparams=%s codec=%s" % (lakey, xcodec)))
    except Exception as e:
        devs.append(Dev("C11:extract_text:raise:%s" % type(e).__name__, repr(e)))
    # ---------------- XML output
    has_control = any(ord(c) in CONTROL for c in want_text)
    # every character the XML output has to carry: text plus document-controlled names
    xml_chars = want_text + "".join(sorted({c.fontname for p in pages for c in walk(p) if isinstance(c, L.LTChar)} | {f.name for p in pages for f in walk(p) if isinstance(f, L.LTFigure)}))
    for _ in range(t.rint(2, 3, "nxml")):
        kind, sink, codec, read = make_sink(t, ctx, xml_chars)
        stripc = t.coin(60, 100, "strip") if has_control else t.coin(30, 100, "strip")
        if stripc:
            ctx.probe("strip_control")
        export = t.coin(20, 100, "xml.export")
        cfg = "output=xml sink=%s codec=%s strip_control=%s laparams=%s pages=%s images-exported=%s" % (kind, codec, stripc, lakey, selkind, export)
        sc = Scratch("verif-c11-") if export else None
        try:
            if export:
                # images exported next to the XML: the file name (made from the document's image name) becomes an attribute
                ctx.probe("xml with exported images")
            HL.extract_text_to_fp(io.BytesIO(data), sink, output_type="xml", codec=codec or "", laparams=la(), strip_control=stripc, page_numbers=sel, output_dir=sc.makedirs("out") if export else None)
            got = read()
        except Exception as e:
            devs.append(Dev("C11:xml:raise:%s@%s" % (type(e).__name__, where(e)), "%r; %s" % (e, cfg)))
            continue
        finally:
            if sc is not None:
                sc.cleanup()
        scen.append(cfg)
        if has_control and not stripc:
            continue  # well-formedness with control characters is what strip_control is for
        head = got.split("\n", 1)[0]
        if codec and ('encoding="%s"' % codec) not in head:
            devs.append(Dev("C11:xml:declared-encoding", "declaration %r, sink codec %r; %s" % (head, codec, cfg)))
        body = got.split("\n", 1)[1] if got.startswith("<?xml") else got
        try:
            parsed = parse_xml(body)
        except xml.parsers.expat.ExpatError as e:
            line = body.split("\n")[e.lineno - 1] if e.lineno - 1 < len(body.split("\n")) else ""
            devs.append(Dev("C11:xml:ill-formed", "%s in line %r; %s" % (e, line[:200], cfg)))
            continue
        want = ["#root", {}, [["pages", {}, [expected_xml_tree(p, stripc) for p in pages], ""]], ""]
        got_tree = norm_ws(parsed)
        if export:
            # <image src=...>: the exported file's name begins with the image's name (path separators replaced)
            srcs = []

            def take_src(node):
                if node[0] == "image":
                    srcs.append(node[1].pop("src", None))
                for k in node[2]:
                    take_src(k)

            take_src(got_tree)
            names = [im.name.replace("/", "_").replace("\\", "_").replace("\0", "_") for p in pages for im in walk(p) if isinstance(im, L.LTImage)]
            if len(srcs) != len(names) or any(sv is None or not sv.startswith(nm) or not sv.endswith(".bmp") for sv, nm in zip(srcs, names)):
                devs.append(Dev("C11:xml:image-src", "src attributes %r, image names %r; %s" % (srcs, names, cfg)))
        d = diff_tree(want, got_tree)
        if d:
            devs.append(Dev("C11:xml:differs-from-tree", "%s; %s" % (d, cfg)))
    seen = {}
    for d in devs:
        seen.setdefault(d.sig, d)
    tape.note(scen)
    tape.note(len(data))
    sample = {"pages": len(pages), "laparams": lakey, "text": want_text[:120], "sinks": scen[:4]}
    return Outcome(list(seen.values()), scen=repr((data, scen)), nontrivial=special, sample=sample)


def jobs(tier, seed):
    import checks.c11 as me

    return core.std_jobs(me, tier, seed)
