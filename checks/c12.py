"""C12 - extraction is a pure function: deterministic, cache- and history-independent (DESIGN 5/C12).

Workload : a pool of documents built to collide (sim.pool) plus a few repository samples.
Schedule : tasks = extraction calls in every API form (extract_text, extract_text_to_fp text/xml, extract_pages
           stepped page by page, single-page sweeps) with caching flags; a seeded scheduler interleaves the page
           iterators of several documents at page granularity, repeats calls, abandons iterators half-consumed,
           runs gc.collect(); cache eviction; address assignment (mono/rev/rand); hash seed (fresh interpreters).
Oracle   : every observation equals the reference computed in a pristine forked process (zygote -> grandchild per
           request); process-wide tables (encodings, font metrics, cached CMaps) keep their digests.
"""
import gc
import hashlib
import io
import json
import os
import pickle
import shutil
import struct
import subprocess
import sys
import tempfile

from sim import core, pool, seams
from sim.core import Dev, Outcome
from sim.oracle import where

ID = "C12"
LEVEL = "exploration"
RULE = (
    "a case = one history of 8..40 scheduler steps over a pool of 3..8 colliding documents: each step starts a task "
    "(extract_text / extract_text_to_fp text|xml / stepped extract_pages / single-page extraction, with tape-chosen "
    "caching flag, LAParams variant, address policy, eviction schedule), advances a running page iterator by one page, "
    "abandons one, or runs gc.collect(); every observation is compared page for page with the reference from a "
    "pristine forked process; 1 case in 25 additionally re-computes the references in fresh interpreters under two "
    "other PYTHONHASHSEED values. distinct = distinct (pool bytes, schedule) histories; non-trivial = at least two "
    "page iterators of different documents were interleaved or a call was repeated after other documents ran."
)
COMPONENTS_REAL = ["all of pdfminer reachable from high_level.extract_text / extract_text_to_fp / extract_pages", "process-wide tables: EncodingDB, FONT_METRICS, CMapDB caches, PSLiteralTable/PSKeywordTable"]
COMPONENTS_STUB = ["file objects: io.BytesIO", "scheduler of extraction tasks (one step = one API call or one next() of a page iterator)", "address seam (module-level id in every pdfminer module)", "cache eviction wrappers", "reference: zygote process forked before any extraction, forking one grandchild per request"]
ASSUMPTIONS = [
    "pre-emption points are public-API steps; threads sharing one parser are not simulated (no such promise)",
    "'result' = text, XML bytes and the canonical LTPage tree incl. names, matrices, colours, points (LTPage.pageid, a per-call counter, is excluded when pages are extracted individually)",
]
PROBES = ["twin of another document (same numbering, other fonts)", "type3-indirect-bbox-broken", "indirect-width-broken", "one document walked twice with the same objects", "interleaved iterators of different documents", "iterator abandoned half-consumed", "call repeated later in history", "gc.collect step", "caching off", "eviction happened", "address policy rev", "address policy rand", "hash-seed re-execution", "cmap cache digest compared", "page replaces font under same resource name", "pages share font object", "page uses undefined font name", "direct font dictionary", "unpainted path at page end", "encrypted", "cjk-euc-h", "unknown-base-diffs-A", "no-encoding", "type0-shared-descendant-A", "type0-shared-descendant-B", "shared-diffs-A", "shared-diffs-B", "helvetica-custom-encoding", "repository sample"]
TIERS = {
    "quick": {"batches": 16, "runs": 14, "budget_s": 150},
    "thorough": {"batches": 128, "runs": 120, "budget_s": 1200},
}
DETERMINISM_SLICE = 2
_ready = False
ZYG = None
BASE_DIGESTS = None
LA_VARIANTS = {"default": {}, "noflow": {"boxes_flow": None}, "alltexts": {"all_texts": True, "detect_vertical": True}}


def setup():
    global _ready, HL, LAParams, BASE_DIGESTS
    if _ready:
        return
    core.import_sut()
    import pdfminer.high_level as HL
    from pdfminer.layout import LAParams

    seams.install_chunk_seam()
    seams.EVICT.install()
    seams.install_addr_seam()
    BASE_DIGESTS = table_digests()
    _ready = True


# ------------------------------------------------------------------------------- canonical observations
def canon(item, out, depth=0, mask_pageid=True):
    from pdfminer import layout as L

    ind = " " * depth
    cls = type(item).__name__
    parts = [cls]
    if isinstance(item, L.LTComponent):
        parts.append("bbox=%r" % (tuple(item.bbox),))
    if isinstance(item, L.LTPage):
        parts.append("rotate=%r" % (item.rotate,))
        if not mask_pageid:
            parts.append("pageid=%r" % (item.pageid,))
    if isinstance(item, L.LTChar):
        gs = item.graphicstate
        parts.append("text=%r font=%r size=%r adv=%r matrix=%r upright=%r ncs=%r ncolor=%r scolor=%r" % (item.get_text(), item.fontname, item.size, item.adv, tuple(item.matrix), item.upright, getattr(item.ncs, "name", None), gs.ncolor, gs.scolor))
    elif isinstance(item, L.LTAnno):
        parts.append("text=%r" % item.get_text())
    elif isinstance(item, L.LTImage):
        try:
            data = item.stream.get_data()
        except Exception as e:  # decoding errors are part of the observation
            data = repr(e).encode()
        parts.append("name=%r srcsize=%r bits=%r mask=%r cs=%r data=%s" % (item.name, item.srcsize, item.bits, item.imagemask, item.colorspace, hashlib.sha1(data).hexdigest()[:16]))
    elif isinstance(item, L.LTFigure):
        parts.append("name=%r matrix=%r" % (item.name, tuple(item.matrix)))
    elif isinstance(item, L.LTCurve):
        parts.append("pts=%r lw=%r s=%r f=%r eo=%r sc=%r nc=%r dash=%r op=%r" % (item.pts, item.linewidth, item.stroke, item.fill, item.evenodd, item.stroking_color, item.non_stroking_color, item.dashing_style, item.original_path))
    if isinstance(item, L.LTTextBox):
        parts.append("index=%r" % (item.index,))
    out.append(ind + " ".join(parts))
    if isinstance(item, L.LTContainer):
        for c in item:
            canon(c, out, depth + 1)
    if isinstance(item, L.LTPage) and getattr(item, "groups", None):
        out.append(ind + "groups:")
        for g in item.groups:
            canon_group(g, out, depth + 1)


def canon_group(g, out, depth):
    from pdfminer import layout as L

    if isinstance(g, L.LTTextGroup):
        out.append(" " * depth + "%s bbox=%r" % (type(g).__name__, tuple(g.bbox)))
        for c in g:
            canon_group(c, out, depth + 1)
    else:
        out.append(" " * depth + "%s index=%r" % (type(g).__name__, getattr(g, "index", None)))


def page_canon(ltpage):
    out = []
    canon(ltpage, out)
    return "\n".join(out)


# option objects the caller owns: within one history the same LAParams object (per variant) and the same page-number
# set (per page) are handed to every call, as a caller with module-level defaults would do; the library may read them
SHARED_LA = {}
SHARED_SETS = {}


def laparams_of(key):
    if key not in SHARED_LA:
        SHARED_LA[key] = LAParams(**LA_VARIANTS[key])
    return SHARED_LA[key]


def pageset(arg):
    return SHARED_SETS.setdefault(arg, {arg})


def options_intact():
    """None, or a description of an option object that a call has changed."""
    for key, la in SHARED_LA.items():
        fresh = LAParams(**LA_VARIANTS[key])
        if vars(la) != vars(fresh):
            bad = sorted(k for k in vars(fresh) if vars(la).get(k) != vars(fresh)[k])
            return "the caller's LAParams object (%s) was changed by a call: %s" % (key, ", ".join("%s=%r" % (k, vars(la).get(k)) for k in bad))
    for arg, st in SHARED_SETS.items():
        if st != {arg}:
            return "the caller's page_numbers set {%d} was changed by a call: now %r" % (arg, st)
    return None


# ------------------------------------------------------------------------------- extraction calls
def call_pages(data, la, caching, page_numbers=None):
    return HL.extract_pages(io.BytesIO(data), page_numbers=page_numbers, caching=caching, laparams=laparams_of(la))


def call_text(data, la, caching, page_numbers=None):
    return HL.extract_text(io.BytesIO(data), page_numbers=page_numbers, caching=caching, laparams=laparams_of(la))


def call_fp(data, la, caching, kind):
    out = io.BytesIO()
    HL.extract_text_to_fp(io.BytesIO(data), out, output_type=kind, codec="utf-8", laparams=laparams_of(la), disable_caching=not caching)
    return out.getvalue()


def pages_steps(data, la, caching):
    """The pages as a page iterator delivers them one by one; when a page raises, the list ends with 'raise:...'."""
    out = []
    try:
        for p in call_pages(data, la, caching):
            out.append(page_canon(p))
    except Exception as e:
        out.append("raise:%s@%s" % (type(e).__name__, where(e)))
    return out


def reference(data, la):
    """Everything the history can observe about (document, LAParams variant), computed once."""
    ref = {}
    pages = pages_steps(data, la, True)
    ref["pages"] = pages
    raised = bool(pages) and pages[-1].startswith("raise:")
    ref["whole"] = pages[-1] if raised else pages  # what a call that reads all pages at once gives
    if raised:
        # (how many pages there are is not known then: single-page calls up to the fourth are recorded)
        pages = [None] * 4
        ref["single"] = [observe_call(data, la, True, "single", i) for i in range(4)]
    for name, fn in (("text", lambda: call_text(data, la, True)), ("fp-text", lambda: call_fp(data, la, True, "text")), ("fp-xml", lambda: call_fp(data, la, True, "xml")), ("fp-html", lambda: call_fp(data, la, True, "html")), ("fp-hocr", lambda: call_fp(data, la, True, "hocr"))):
        try:
            ref[name] = fn()
        except Exception as e:
            ref[name] = "raise:%s@%s" % (type(e).__name__, where(e))
    single = []
    for i in range(len(pages)):
        try:
            single.append(call_text(data, la, True, page_numbers={i}))
        except Exception as e:
            single.append("raise:%s@%s" % (type(e).__name__, where(e)))
    ref["text-single"] = single
    return ref


# ------------------------------------------------------------------------------- zygote
class Zygote:
    """A child forked before any extraction ran; it forks one grandchild per request."""

    def __init__(self):
        req_r, req_w = os.pipe()
        res_r, res_w = os.pipe()
        pid = os.fork()
        if pid == 0:
            os.close(req_w)
            os.close(res_r)
            try:
                self._serve(req_r, res_w)
            finally:
                os._exit(0)
        os.close(req_r)
        os.close(res_w)
        self.pid = pid
        self.req = os.fdopen(req_w, "wb")
        self.res = os.fdopen(res_r, "rb")

    @staticmethod
    def _read(f):
        hdr = f.read(8)
        if len(hdr) < 8:
            return None
        (n,) = struct.unpack(">Q", hdr)
        return pickle.loads(f.read(n))

    @staticmethod
    def _write(f, obj):
        b = pickle.dumps(obj)
        f.write(struct.pack(">Q", len(b)) + b)
        f.flush()

    def _serve(self, req_r, res_w):
        rf = os.fdopen(req_r, "rb")
        wf = os.fdopen(res_w, "wb")
        while True:
            msg = self._read(rf)
            if msg is None:
                return
            pid = os.fork()
            if pid == 0:
                try:
                    try:
                        out = handle(msg)
                    except BaseException as e:
                        out = {"zygote-error": repr(e)}
                    self._write(wf, out)
                finally:
                    os._exit(0)
            os.waitpid(pid, 0)

    def ask(self, msg):
        self._write(self.req, msg)
        out = self._read(self.res)
        if out is None or (isinstance(out, dict) and "zygote-error" in out):
            raise core.HarnessError("reference process failed: %r" % (out,))
        return out


def handle(msg):
    kind = msg[0]
    if kind == "reference":
        _, data, la, addr = msg
        seams.ADDR.reset(addr[0], addr[1])
        return reference(data, la)
    if kind == "one":
        # the same single call as in the history, in a pristine process, under a given address policy
        _, data, la, caching, what, arg, addr = msg
        seams.ADDR.reset(addr[0], addr[1])
        return observe_call(data, la, caching, what, arg)
    if kind == "cmap-digest":
        _, names = msg
        from pdfminer.cmapdb import CMapDB

        out = {}
        for n in names:
            try:
                out[n] = digest_obj(CMapDB.get_cmap(n).code2cid)
            except Exception as e:
                out[n] = "raise:%r" % (e,)
        return out
    raise ValueError(kind)


def html_with_options(data, la, caching):
    """An HTML conversion with the converter's non-default options (debug boxes, other colours, another scale):
    its own output is not judged - it must leave nothing behind for the conversions that follow."""
    from pdfminer.converter import HTMLConverter
    from pdfminer.pdfinterp import PDFPageInterpreter, PDFResourceManager
    from pdfminer.pdfpage import PDFPage

    rm = PDFResourceManager(caching=caching)
    out = io.BytesIO()
    dev = HTMLConverter(rm, out, codec="utf-8", laparams=laparams_of(la), debug=1, scale=2, fontscale=0.5, layoutmode="exact", showpageno=False, pagemargin=10)
    interp = PDFPageInterpreter(rm, dev)
    for page in PDFPage.get_pages(io.BytesIO(data), caching=caching):
        interp.process_page(page)
    dev.close()
    return "done"


def walk_twice(data, la, caching):
    """The low-level API with one document, one resource manager, one device and one interpreter: the pages walked
    twice, and every page interpreted twice in the second walk.  Answers the pages of the last pass if all passes
    agree, else a description of the disagreement."""
    from pdfminer.converter import PDFPageAggregator
    from pdfminer.pdfdocument import PDFDocument
    from pdfminer.pdfinterp import PDFPageInterpreter, PDFResourceManager
    from pdfminer.pdfpage import PDFPage
    from pdfminer.pdfparser import PDFParser

    doc = PDFDocument(PDFParser(io.BytesIO(data)), caching=caching)
    rm = PDFResourceManager(caching=caching)
    dev = PDFPageAggregator(rm, laparams=laparams_of(la))
    interp = PDFPageInterpreter(rm, dev)
    passes = []
    for rnd in range(2):
        out = []
        for page in PDFPage.create_pages(doc):
            for _ in range(1 + rnd):
                interp.process_page(page)
                got = page_canon(dev.get_result())
            out.append(got)
        passes.append(out)
    if passes[0] != passes[1]:
        return "second walk over the same document differs from the first: %s" % (first_diff(passes[1], passes[0]),)
    return passes[1]


def observe_call(data, la, caching, what, arg):
    try:
        if what == "pages":
            return [page_canon(p) for p in call_pages(data, la, caching)]
        if what == "pages-steps":
            return pages_steps(data, la, caching)
        if what == "single":
            return [page_canon(p) for p in call_pages(data, la, caching, page_numbers=pageset(arg))]
        if what == "doc-twice":
            return walk_twice(data, la, caching)
        if what == "html-options":
            return html_with_options(data, la, caching)
        if what == "text":
            return call_text(data, la, caching)
        if what == "text-single":
            return call_text(data, la, caching, page_numbers=pageset(arg))
        return call_fp(data, la, caching, what[3:])
    except Exception as e:
        return "raise:%s@%s" % (type(e).__name__, where(e))


# ------------------------------------------------------------------------------- process-wide tables
def digest_obj(o):
    h = hashlib.sha1()

    def walk(x):
        if isinstance(x, dict):
            h.update(b"{")
            for k in sorted(x, key=repr):
                h.update(repr(k).encode())
                walk(x[k])
            h.update(b"}")
        elif isinstance(x, (list, tuple)):
            h.update(b"[")
            for v in x:
                walk(v)
            h.update(b"]")
        else:
            h.update(repr(x).encode())

    walk(o)
    return h.hexdigest()


def table_digests():
    from pdfminer.encodingdb import EncodingDB
    from pdfminer.fontmetrics import FONT_METRICS

    return {
        "EncodingDB.std2unicode": digest_obj(EncodingDB.std2unicode),
        "EncodingDB.mac2unicode": digest_obj(EncodingDB.mac2unicode),
        "EncodingDB.win2unicode": digest_obj(EncodingDB.win2unicode),
        "EncodingDB.pdf2unicode": digest_obj(EncodingDB.pdf2unicode),
        "FONT_METRICS": digest_obj(FONT_METRICS),
    }


# ------------------------------------------------------------------------------- the history
def first_diff(a, b):
    if isinstance(a, str) and isinstance(b, str):
        la, lb = a.split("\n"), b.split("\n")
        for i, (x, y) in enumerate(zip(la, lb)):
            if x != y:
                return "line %d: history %r, reference %r" % (i, x[:300], y[:300])
        return "length: history %d lines, reference %d lines" % (len(la), len(lb))
    if isinstance(a, bytes) and isinstance(b, bytes):
        for i, (x, y) in enumerate(zip(a, b)):
            if x != y:
                return "byte %d: history %r, reference %r" % (i, a[max(0, i - 40) : i + 40], b[max(0, i - 40) : i + 40])
        return "length: history %d bytes, reference %d bytes" % (len(a), len(b))
    return "history %r, reference %r" % (str(a)[:300], str(b)[:300])


def run(tape, ctx, item=None):
    global ZYG
    t = tape
    if ZYG is None:
        ZYG = Zygote()
    devs = []
    SHARED_LA.clear()
    SHARED_SETS.clear()
    docs_ = pool.make_pool(t, ctx, core.REPO)
    for d in docs_:
        for f in d["features"]:
            ctx.probe("repository sample" if f.startswith("repository sample") else f)
    refs = {}

    def ref_for(di, la):
        key = (di, la)
        if key not in refs:
            refs[key] = ZYG.ask(("reference", docs_[di]["data"], la, ("mono", 0)))
        return refs[key]

    tasks = []  # running page iterators: dict(doc, la, it, next index, caching, addr)
    seen_calls = set()
    hist = []
    nsteps = t.rint(8, 40, "nsteps")
    interleaved = repeated = False
    last_iter_doc = None
    seams.ADDR.reset("mono", 0)
    idcalls0 = seams.ADDR.calls

    def check(di, la, what, arg, got, addr, caching):
        r = ref_for(di, la)
        if what == "pages-step":
            want = r["pages"][arg] if isinstance(r["pages"], list) and arg < len(r["pages"]) else r["pages"]
        elif what == "single" and "single" in r and arg < len(r["single"]):
            want = r["single"][arg]
        elif what == "single":
            want = [r["pages"][arg]] if isinstance(r["pages"], list) and arg < len(r["pages"]) else ([] if isinstance(r["pages"], list) else r["pages"])
        elif what == "text-single":
            want = r["text-single"][arg] if arg < len(r["text-single"]) else ""
        elif what in ("doc-twice", "pages"):
            want = r["whole"]
        elif what == "html-options":
            want = "done" if not (isinstance(r.get("fp-html"), str) and r["fp-html"].startswith("raise:")) else got
        else:
            want = r[what]
        if got == want:
            return
        # attribute the difference: same call, pristine process, same address policy
        one_what = {"pages-step": "pages-steps"}.get(what, what)
        again = ZYG.ask(("one", docs_[di]["data"], la, caching, one_what, arg, addr))
        if what == "pages-step":
            again = again[arg] if isinstance(again, list) and arg < len(again) else again
        cfg = "document %s (%s), call %s(%r) laparams=%s caching=%s addr=%s; history so far: %s" % (docs_[di]["name"], ", ".join(docs_[di]["features"])[:200], what, arg, la, caching, addr[0], hist[-12:])
        mono_same = True
        if again == got and addr[0] != "mono":
            again_mono = ZYG.ask(("one", docs_[di]["data"], la, caching, one_what, arg, ("mono", 0)))
            if what == "pages-step":
                again_mono = again_mono[arg] if isinstance(again_mono, list) and arg < len(again_mono) else again_mono
            mono_same = again_mono == got
        if again == got and not mono_same:
            devs.append(Dev("C12:address-dependent", "result changes with the address assignment: %s; %s" % (first_diff(got, want), cfg)))
        elif again == got:
            devs.append(Dev("C12:option-dependent", "pristine process gives the same as history but differs from the reference call (caching flag / page subset changes the result): %s; %s" % (first_diff(got, want), cfg)))
        else:
            devs.append(Dev("C12:history-dependent", "result differs from a pristine process: %s; %s" % (first_diff(got, want), cfg)))

    for step in range(nsteps):
        if devs:
            break
        k = t.weighted([5, 6, 2, 1, 1], "sched") if tasks else t.weighted([5, 0, 0, 0, 1], "sched")
        if k == 0:  # start a task
            di = t.draw(len(docs_), "task.doc")
            la = t.pick(["default", "default", "noflow", "alltexts"], "task.la")
            caching = not t.coin(30, 100, "task.caching")
            if not caching:
                ctx.probe("caching off")
            addr = (t.pick(["mono", "mono", "rev", "rand"], "task.addr"), t.draw(1000, "task.addrseed"))
            if addr[0] != "mono":
                ctx.probe("address policy " + addr[0])
            ev = seams.draw_evict(t)
            what = t.pick(["pages", "pages", "single", "text", "text-single", "fp-text", "fp-xml", "fp-html", "fp-html", "fp-hocr", "html-options", "doc-twice"], "task.what")
            if what == "doc-twice":
                ctx.probe("one document walked twice with the same objects")
            r = ref_for(di, la)
            npages = len(r["pages"]) if isinstance(r["pages"], list) else 0
            arg = t.draw(max(1, npages), "task.page") if what in ("single", "text-single") else None
            callkey = (di, la, what, arg)
            if callkey in seen_calls and hist and any(len(h) > 1 and h[1] != di for h in hist):
                repeated = True
                ctx.probe("call repeated later in history")
            seen_calls.add(callkey)
            ctx.seam("sched")
            ctx.seam("addr")
            ctx.seam("evict", 1 if ev else 0)
            if what == "pages":
                seams.ADDR.reset(*addr)
                seams.EVICT.set(ev)
                try:
                    it = iter(call_pages(docs_[di]["data"], la, caching))
                except Exception as e:
                    check(di, la, "pages", None, "raise:%s@%s" % (type(e).__name__, where(e)), addr, caching)
                    it = None
                finally:
                    seams.EVICT.set(None)
                if it is not None:
                    tasks.append({"doc": di, "la": la, "it": it, "i": 0, "caching": caching, "addr": addr, "ev": ev})
                hist.append(("start-pages", di, la))
            else:
                seams.ADDR.reset(*addr)
                seams.EVICT.set(ev)
                seams.EVICT.evictions = 0
                try:
                    got = observe_call(docs_[di]["data"], la, caching, what, arg)
                finally:
                    seams.EVICT.set(None)
                if seams.EVICT.evictions:
                    ctx.probe("eviction happened", seams.EVICT.evictions)
                hist.append((what, di, la, arg))
                check(di, la, what, arg, got, addr, caching)
                changed = options_intact()
                if changed:
                    devs.append(Dev("C12:caller-options-mutated", "%s; history %s" % (changed, hist[-6:])))
        elif k == 1:  # advance one page iterator by one page
            task = t.pick(tasks, "sched.task")
            if last_iter_doc is not None and last_iter_doc != task["doc"]:
                interleaved = True
                ctx.probe("interleaved iterators of different documents")
            last_iter_doc = task["doc"]
            ctx.seam("sched")
            seams.ADDR.reset(*task["addr"]) if task["i"] == 0 else None
            seams.ADDR.policy = task["addr"][0]
            seams.EVICT.set(task["ev"])
            try:
                page = next(task["it"])
                got = page_canon(page)
            except StopIteration:
                got = None
            except Exception as e:
                got = "raise:%s@%s" % (type(e).__name__, where(e))
            finally:
                seams.EVICT.set(None)
            hist.append(("next-page", task["doc"], task["la"], task["i"]))
            if got is None:
                r = ref_for(task["doc"], task["la"])
                if isinstance(r["pages"], list) and task["i"] != len(r["pages"]):
                    devs.append(Dev("C12:history-dependent", "page iterator of %s ended after %d pages, reference has %d; history %s" % (docs_[task["doc"]]["name"], task["i"], len(r["pages"]), hist[-12:])))
                tasks.remove(task)
            else:
                check(task["doc"], task["la"], "pages-step", task["i"], got, task["addr"], task["caching"])
                task["i"] += 1
                if isinstance(got, str) and got.startswith("raise:"):
                    tasks.remove(task)
        elif k == 2:  # abandon an iterator half-consumed
            task = t.pick(tasks, "sched.abandon")
            tasks.remove(task)
            task["it"] = None
            ctx.probe("iterator abandoned half-consumed")
            hist.append(("abandon", task["doc"]))
        elif k == 3:
            gc.collect()
            ctx.probe("gc.collect step")
            hist.append(("gc",))
        else:
            # invariant: process-wide tables keep their digests
            now = table_digests()
            for name, dg in now.items():
                if dg != BASE_DIGESTS[name]:
                    devs.append(Dev("C12:shared-table-mutated:%s" % name, "digest of %s changed during the history %s" % (name, hist[-12:])))
            hist.append(("check-tables",))
    tasks.clear()
    ctx.probe("id() calls seen by the address seam", seams.ADDR.calls - idcalls0)
    seams.ADDR.reset("off")
    # end-of-run invariants
    now = table_digests()
    for name, dg in now.items():
        if dg != BASE_DIGESTS[name]:
            devs.append(Dev("C12:shared-table-mutated:%s" % name, "digest of %s changed during the history %s" % (name, hist[-12:])))
    if not devs and t.coin(20, 100, "cmapcheck"):
        from pdfminer.cmapdb import CMapDB

        names = sorted(n for n in CMapDB._cmap_cache)
        if names:
            ctx.probe("cmap cache digest compared", len(names))
            fresh = ZYG.ask(("cmap-digest", names))
            for n in names:
                mine = digest_obj(CMapDB._cmap_cache[n].code2cid)
                if mine != fresh[n]:
                    devs.append(Dev("C12:shared-table-mutated:CMap", "cached CMap %s differs from a freshly loaded one after history %s" % (n, hist[-12:])))
    if not devs and t.coin(4, 100, "hashseed"):
        ctx.probe("hash-seed re-execution")
        hashseed_mode(docs_, refs, devs)
    seen = {}
    for d in devs:
        seen.setdefault(d.sig, d)
    tape.note(hist)
    tape.note([hashlib.sha1(d["data"]).hexdigest() for d in docs_])
    sample = {"pool": [{"name": d["name"], "bytes": len(d["data"]), "features": d["features"][:6]} for d in docs_], "history": [list(h) for h in hist[:25]]}
    return Outcome(list(seen.values()), scen=repr((hist, [hashlib.sha1(d["data"]).hexdigest() for d in docs_])), nontrivial=interleaved or repeated, sample=sample)


# ------------------------------------------------------------------------------- hash-seed mode
def hashseed_mode(docs_, refs, devs):
    d = tempfile.mkdtemp(prefix="verif-c12-")
    try:
        keys = sorted(refs)
        for di, la in keys:
            with open(os.path.join(d, "doc%d.pdf" % di), "wb") as f:
                f.write(docs_[di]["data"])
        with open(os.path.join(d, "keys.json"), "w") as f:
            json.dump(keys, f)
        want = {"%d/%s" % k: digest_ref(refs[k]) for k in keys}
        for hs in ("1", "4242"):
            env = dict(os.environ)
            env.update(PYTHONHASHSEED=hs, VERIF_NO_REEXEC="1")
            p = subprocess.run([sys.executable, os.path.join(core.VERIF, "check"), "C12", "--call", "hashseed", d], env=env, capture_output=True, text=True, timeout=600)
            try:
                got = json.loads(p.stdout.strip().splitlines()[-1])
            except Exception:
                raise core.HarnessError("hash-seed re-execution failed: %s %s" % (p.stdout[-300:], p.stderr[-800:]))
            for k, dg in want.items():
                if got.get(k) != dg:
                    devs.append(Dev("C12:hashseed-dependent", "document %s: result under PYTHONHASHSEED=%s differs from PYTHONHASHSEED=%s (keys differing: %s)" % (docs_[int(k.split("/")[0])]["name"], hs, os.environ.get("PYTHONHASHSEED"), [x for x in dg if got.get(k, {}).get(x) != dg[x]])))
    finally:
        shutil.rmtree(d, ignore_errors=True)


def digest_ref(r):
    return {k: hashlib.sha1(repr(v).encode("utf-8", "backslashreplace")).hexdigest() for k, v in r.items()}


def cli_call(name, arg):
    """./check C12 --call hashseed <dir>: recompute references in this (fresh) interpreter, print digests."""
    setup()
    with open(os.path.join(arg, "keys.json")) as f:
        keys = json.load(f)
    out = {}
    for di, la in keys:
        with open(os.path.join(arg, "doc%d.pdf" % di), "rb") as f:
            data = f.read()
        seams.ADDR.reset("mono", 0)
        out["%d/%s" % (di, la)] = digest_ref(reference(data, la))
    print(json.dumps(out))
    return 0


def jobs(tier, seed):
    import checks.c12 as me

    return core.std_jobs(me, tier, seed)
