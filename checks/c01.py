"""C01 - every conformant spelling of a value reads back as that value (DESIGN 5/C01).

Workload : value trees over all kinds; every physical spelling choice drawn from the tape.
Schedule : chunk seam - default, constant sizes, per-refill mixes, boundaries *placed* inside the
           multi-byte constructs the writer emitted; absolute offset of the object; caching flag.
Oracle   : structural equality with the model value on two read paths
           (PDFStreamParser(bytes).nextobject(), PDFDocument.getobj(n)) and identity across schedules.
"""
from io import BytesIO

from sim import core, seams
from sim.core import Dev, Outcome
from sim.pdfwriter import FileWriter, Name, Real, Ref, Ser, Str

ID = "C01"
LEVEL = "exploration"
RULE = (
    "a case = one generated value tree, written in two tape-chosen conformant spellings, each read back through "
    "PDFStreamParser.nextobject() and through PDFDocument.getobj() (object placed at a tape-chosen absolute offset "
    "0..3*4096 in a classic-xref file) under up to 3 chunk schedules per path (default / constant / mixed / placed "
    "boundaries). distinct = distinct (spelling bytes, schedule) combinations; non-trivial = at least one schedule "
    "of the case put a refill boundary inside the serialised value (non-default chunking reached the parser)."
)
COMPONENTS_REAL = ["pdfminer.psparser (tokenizer, PSStackParser)", "pdfminer.pdfparser (PDFParser, PDFStreamParser)", "pdfminer.pdfdocument (find_xref, PDFXRef.load, getobj)", "pdfminer.pdftypes.PDFObjRef"]
COMPONENTS_STUB = ["file object: io.BytesIO over SimWriter output", "PSBaseParser.BUFSIZ: chunk seam", "producer: sim.pdfwriter (independent serialiser)"]
ASSUMPTIONS = [
    "conformant spellings = ISO 32000-1 7.2.2-7.3.10 constructs listed in DESIGN appendix B (no VT, no #00, no exponents)",
    "dictionary keys are UTF-8 clean (API key type is str)",
    "a bare top-level reference is not handed to PDFStreamParser except to exhibit known finding C01:streamparser-toplevel-ref",
]
PROBES = [
    "tens of thousands of distinct names",
    "read under settings.STRICT",
    "nesting deeper than 1000",
    "boundary inside string escape",
    "boundary inside name #xx",
    "str-continuation-crlf",
    "str-raw-eol-crlf",
    "hex-odd",
    "str-unknown-escape",
    "comment",
    "object offset beyond 4096",
    "caching off",
]
TIERS = {
    "quick": {"batches": 16, "runs": 3000, "budget_s": 90},
    "thorough": {"batches": 128, "runs": 4000, "budget_s": 900},
}
DETERMINISM_SLICE = 8

_ready = False


def setup():
    global _ready, PDFStreamParser, PDFParser, PDFDocument, PDFObjRef, PSLiteral, PSKeyword, LIT, PSEOF
    if _ready:
        return
    core.import_sut()
    from pdfminer.pdfdocument import PDFDocument
    from pdfminer.pdfparser import PDFParser, PDFStreamParser
    from pdfminer.pdftypes import PDFObjRef
    from pdfminer.psparser import LIT, PSEOF, PSKeyword, PSLiteral

    seams.install_chunk_seam()
    _ready = True


# ------------------------------------------------------------------------------------
# generator
# ------------------------------------------------------------------------------------
STR_POOL = b"()\\\r\n\n\r01278nrtbfa z#/%<>[]\x00\xff\xe9\t\x0c"
NAME_POOL = b"AbZ09 #/%()<>[]{}._-\xc3\xa9\xff\t\n+\xe9\xe9"  # (e9: Latin-1 e-acute, next to its UTF-8 form c3 a9)


def gen_bytes(t, pool, maxlen, label):
    n = t.draw(maxlen + 1, label + ".len")
    out = bytearray()
    for _ in range(n):
        if t.coin(15, 100, label + ".any"):
            out.append(t.draw(256, label + ".byte"))
        else:
            out.append(t.pick(pool, label + ".pool"))
    return bytes(out)


def gen_name(t, utf8=False):
    while True:
        b = gen_bytes(t, NAME_POOL, 8, "name").replace(b"\x00", b"")
        if utf8:
            b = b.decode("utf-8", "ignore").encode("utf-8")
        return Name(b)


def gen_real(t):
    form = t.draw(7, "real.form")
    sign = t.pick(["", "", "-", "+"], "real.sign")
    a = str(t.draw(1000, "real.int"))
    b = "%0*d" % (1 + t.draw(4, "real.fd"), t.draw(10000, "real.frac"))
    if t.coin(6, 100, "real.long"):
        # many decimal places: leading zeros behind the point and / or a long tail of digits (the value is what
        # float() makes of the whole token)
        txt = t.pick(["0", "", a], "real.long.int") + "." + "0" * t.pick([0, 5, 16, 17, 18, 25], "real.long.zeros") + "".join(str(t.draw(10, "real.long.d")) for _ in range(t.pick([1, 3, 17, 20], "real.long.n")))
        return Real(sign + txt)
    if form == 0:
        txt = a + "."
    elif form == 1:
        txt = "." + b
    elif form == 2:
        txt = "0" * t.draw(3, "real.z") + a + "." + b
    elif form == 3:
        txt = "0.0"
    else:
        txt = a + "." + b
    return Real(sign + txt)


def gen_int(t):
    k = t.draw(6, "int.kind")
    if k == 0:
        return 0
    if k == 1:
        return t.draw(10, "int.small")
    if k == 2:
        return -t.draw(1000, "int.neg")
    if k == 3:
        return t.draw(1 << 31, "int.31")
    if k == 4:
        return t.pick([2**31 - 1, -(2**31), 2**63 - 1, -(2**63), 65535, 4096], "int.edge")
    return t.draw(100000, "int.mid")


STRICT_RUN = [False]


def gen_value(t, depth, budget):
    """budget: mutable [remaining nodes]"""
    budget[0] -= 1
    leaf = depth <= 0 or budget[0] <= 0
    k = t.weighted([6, 5, 8, 6, 10, 14] + ([0, 0] if leaf else [9, 9]) + [6], "val.kind")
    if k == 0:
        return None
    if k == 1:
        return t.coin(50, 100, "bool")
    if k == 2:
        return gen_int(t)
    if k == 3:
        return gen_real(t)
    if k == 4:
        return gen_name(t)
    if k == 5:
        return Str(gen_bytes(t, STR_POOL, 14, "str"))
    if k == 6:
        return [gen_value(t, depth - 1, budget) for _ in range(t.draw(7, "arr.n"))]
    if k == 7:
        d = {}
        for _ in range(t.draw(6, "dict.n")):
            key = gen_name(t, utf8=not t.coin(20, 100, "dict.rawkey"))  # some keys are not valid UTF-8
            if key.b in d:
                continue
            d[key.b] = gen_value(t, depth - 1, budget)
        return d
    num = t.draw(70000, "ref.num")
    if num == 0 and STRICT_RUN[0]:
        num = 1  # strict mode deliberately rejects a reference to object 0 (the head of the free list)
    return Ref(num, t.pick([0, 0, 1, 65535], "ref.gen"))


# ------------------------------------------------------------------------------------
# oracle
# ------------------------------------------------------------------------------------
from sim.oracle import canon, match, where  # noqa: E402


class OddHexSer(Ser):
    """Ser that also records, per Str object, what known-finding readings would produce."""

    def __init__(self, *a, **k):
        super().__init__(*a, **k)
        self.quirks = {}

    def string(self, s):
        before = set(self.features)
        self.features.discard("hex-odd")
        super().string(s)
        if "hex-odd" in self.features and s.b:
            # pdfminer reads a lone final digit d as 0x0d instead of 0xd0
            self.quirks[id(s)] = ("C01:odd-hex-final-digit", s.b[:-1] + bytes((s.b[-1] >> 4,)))
        self.features |= before


def read_stream_path(data, policy):
    seams.CHUNK.policy = policy
    try:
        p = PDFStreamParser(data)
        (_, obj) = p.nextobject()
        try:
            extra = p.nextobject()
            return ("extra", obj, extra)
        except PSEOF:
            return ("ok", obj, None)
    except Exception as e:
        return ("raise", "%s@%s" % (type(e).__name__, where(e)), repr(e))
    finally:
        seams.CHUNK.policy = None


def read_doc_path(filebytes, nums, policy, caching):
    seams.CHUNK.policy = policy
    res = {}
    try:
        try:
            doc = PDFDocument(PDFParser(BytesIO(filebytes)), caching=caching)
        except Exception as e:
            return {n: ("raise", "open:%s@%s" % (type(e).__name__, where(e)), repr(e)) for n in nums}
        for n in nums:
            try:
                res[n] = ("ok", doc.getobj(n), None)
            except Exception as e:
                res[n] = ("raise", "%s@%s" % (type(e).__name__, where(e)), repr(e))
        return res
    finally:
        seams.CHUNK.policy = None


def judge(kind, model, result, quirks, sched_desc, spelling, devs, path_name):
    """Turn one read result into deviations. Returns canonical form or None."""
    if result[0] == "raise":
        devs.append(Dev("C01:%s:raise:%s" % (path_name, result[1]), "%s; schedule=%s; spelling=%r" % (result[2], sched_desc, spelling)))
        return None
    if result[0] == "extra":
        devs.append(Dev("C01:%s:residue" % path_name, "after the value another object came out: %r; schedule=%s; spelling=%r" % (result[2], sched_desc, spelling)))
    mism = []
    match(model, result[1], quirks, "$", mism)
    for path, k, detail, known in mism:
        sig = known or "C01:%s:wrong-%s" % (path_name, k)
        devs.append(Dev(sig, "at %s: %s; schedule=%s; spelling=%r" % (path, detail, sched_desc, spelling)))
    return canon(result[1])


def deep_case(t, ctx):
    """Containers nested hundreds to thousands of levels deep, followed by a keyword-like value in the same container.
    Written and judged without recursion (the general model comparison is recursive)."""
    depth = t.pick([300, 1200, 1500, 3000], "deep.D")
    if depth > 1000:
        ctx.probe("nesting deeper than 1000")
    levels = [t.pick("ad", "deep.kind") if t.coin(20, 100, "deep.mix") else "a" for _ in range(depth)]
    tail = t.pick([b"null", b"5 0 R", b"true", b"7", b"", b"/N"], "deep.tail")
    body = b"".join(b"[" if k == "a" else b"<</K " for k in levels) + b"7" + b"".join(b"]" if k == "a" else b">>" for k in reversed(levels))
    spelled = b"[" + body + b" " + tail + b"]"
    devs = []

    def judge_deep(res, path_name, desc):
        if res[0] != "ok":
            devs.append(Dev("C01:%s:raise:%s" % (path_name, res[1]), "%s; %d levels of nesting followed by %r; %s" % (res[2], depth, tail, desc)))
            return
        v = res[1]
        want_len = 2 if tail else 1
        if not isinstance(v, list) or len(v) != want_len:
            devs.append(Dev("C01:%s:wrong-deep" % path_name, "outer array of %d expected, got %s; %d levels, tail %r; %s" % (want_len, type(v).__name__, depth, tail, desc)))
            return
        inner = v[0]
        for lv, k in enumerate(levels):
            if k == "a":
                ok = isinstance(inner, list) and len(inner) == 1
                nxt = inner[0] if ok else None
            else:
                ok = isinstance(inner, dict) and list(inner) == ["K"]
                nxt = inner["K"] if ok else None
            if not ok:
                devs.append(Dev("C01:%s:wrong-deep" % path_name, "level %d of %d: expected a one-element %s, got %s; tail %r; %s" % (lv, depth, "array" if k == "a" else "dictionary", type(inner).__name__, tail, desc)))
                return
            inner = nxt
        if inner != 7 or isinstance(inner, bool):
            devs.append(Dev("C01:%s:wrong-deep" % path_name, "innermost value %r, expected 7; %d levels; %s" % (inner, depth, desc)))
        if tail:
            got = v[1]
            good = {b"null": got is None, b"true": got is True, b"7": got == 7 and not isinstance(got, bool), b"5 0 R": isinstance(got, PDFObjRef) and got.objid == 5, b"/N": literal_name_of(got) == "N"}[tail]
            if not good:
                devs.append(Dev("C01:%s:wrong-deep" % path_name, "value after the deep container: %r, expected %r; %d levels; %s" % (got, tail, depth, desc)))

    for k in range(2):
        pol, desc = (None, "default") if k == 0 else seams.draw_chunk_policy(t, None, allow_default=False)
        ctx.seam("chunk")
        if tail != b"5 0 R":
            # (a reference inside a stream-parser value needs a document; the document path covers it)
            judge_deep(read_stream_path(spelled, pol), "streamparser", desc)
        fw = FileWriter(tape=t, wild=False)
        fw.add_object(1, {b"Type": Name(b"Catalog")}, wild=False)
        off = fw.pos()
        fw.buf += b"2 0 obj" + spelled + b"endobj\n"
        fw.offsets[2] = (off, 0)
        fw.xref_table({0: (None, 65535), 1: fw.offsets[1], 2: fw.offsets[2]}, {b"Size": 3, b"Root": Ref(1, 0)})
        caching = not t.coin(30, 100, "caching")
        judge_deep(read_doc_path(fw.getvalue(), [2], pol, caching)[2], "getobj", desc + ("/caching" if caching else "/nocache"))
    seen = {}
    for d in devs:
        seen.setdefault(d.sig, d)
    t.note((depth, tail))
    return Outcome(list(seen.values()), scen=repr((depth, "".join(levels), tail)), nontrivial=True, sample={"value": "%d nested containers followed by %r" % (depth, tail), "spelling": repr(spelled[:40]), "object_offset": 0, "features": ["deep nesting"]})


def many_names_case(t, ctx):
    """Tens of thousands of distinct names in one process: a name read before them and after them is the same
    name (names compare by identity in the library), and each of the many reads back as itself, twice."""
    from pdfminer.psparser import LIT, PSLiteral

    n = t.pick([33000, 70000, 140000], "names.n")
    base = t.draw(1000, "names.base")
    ctx.probe("tens of thousands of distinct names")
    data = b"[/First /Type " + b" ".join(b"/n%dx%d" % (base, i) for i in range(n)) + b" /First /Type]"
    devs = []
    before = LIT("First")
    reads = []
    for k in range(2):
        res = read_stream_path(data, None)
        if res[0] != "ok" or not isinstance(res[1], list) or len(res[1]) != n + 4:
            devs.append(Dev("C01:streamparser:wrong-names", "array of %d names: %r" % (n + 4, res[:2] if res[0] != "ok" else len(res[1]))))
            break
        reads.append(res[1])
    if len(reads) == 2:
        a, b = reads
        bad = next((i for i in range(n + 4) if not isinstance(a[i], PSLiteral) or a[i] is not b[i]), None)
        if bad is not None:
            devs.append(Dev("C01:streamparser:name-identity", "element %d of an array of %d distinct names: %r when read first, %r (another object) when read again in the same process" % (bad, n + 4, a[bad], b[bad])))
        elif a[0] is not a[-2] or a[0] is not before or LIT("First") is not before or a[1] is not LIT("Type"):
            devs.append(Dev("C01:streamparser:name-identity", "/First or /Type before and after %d other names are different objects" % n))
        elif any(a[2 + i].name != "n%dx%d" % (base, i) for i in (0, 1, n // 2, n - 1)):
            devs.append(Dev("C01:streamparser:wrong-names", "names read back changed"))
    t.note((n, base))
    seen = {}
    for d in devs:
        seen.setdefault(d.sig, d)
    return Outcome(list(seen.values()), scen=repr(("names", n, base)), nontrivial=True, sample={"value": "array of %d distinct names" % n, "spelling": repr(data[:60]), "object_offset": 0, "features": ["many names"]})


def literal_name_of(v):
    from pdfminer.psparser import PSLiteral

    return v.name if isinstance(v, PSLiteral) else None


def run(tape, ctx, item=None):
    t = tape
    if t.coin(1, 120, "deep"):
        return deep_case(t, ctx)
    if t.coin(1, 700, "manynames"):
        return many_names_case(t, ctx)
    if t.coin(10, 100, "strict"):
        # conformant objects read back the same under the library's strict setting
        from pdfminer import settings as _settings

        ctx.probe("read under settings.STRICT")
        _settings.STRICT = True
        STRICT_RUN[0] = True
        try:
            out = run_value(t, ctx)
        finally:
            _settings.STRICT = False
            STRICT_RUN[0] = False
        for d in out.devs:
            d.msg = "under settings.STRICT: " + d.msg
        return out
    return run_value(t, ctx)


def run_value(t, ctx):
    tape = t
    value = gen_value(t, t.pick([0, 1, 2, 3, 4, 6], "depth"), [t.pick([3, 10, 40, 120], "budget")])
    devs = []
    scen = []
    nontrivial = False
    samples = None
    nul_ws = True
    for spelling_no in range(2):
        # ---------------- path 1: PDFStreamParser
        toplevel_ref = isinstance(value, Ref)
        s = OddHexSer(t, True, base=0, nul_ws=nul_ws)
        s.value(value)
        data = bytes(s.out)
        for f in s.features:
            ctx.probe(f)
        canons = set()
        for k in range(3):
            pol, desc = (None, "default") if k == 0 else seams.draw_chunk_policy(t, s.cuts or None, allow_default=False)
            ctx.seam("chunk")
            seams.CHUNK.nondefault = 0
            res = read_stream_path(data, pol)
            if seams.CHUNK.nondefault:
                nontrivial = True
            if toplevel_ref:
                # known finding 26: PDFStreamParser publishes top-level operands one by one, so a bare
                # top-level reference never assembles (number returned, residue, or ValueError in do_keyword)
                ok = res[0] == "ok" and isinstance(res[1], PDFObjRef) and res[1].objid == value.num
                if not ok:
                    devs.append(Dev("C01:streamparser-toplevel-ref", "PDFStreamParser(%r).nextobject() -> %r" % (data, res[1:])))
                continue
            c = judge("stream", value, res, s.quirks, desc, data, devs, "streamparser")
            canons.add(c)
            scen.append((data, desc))
            if "placed" in desc:
                if "str-escape" in s.features or "str-octal3" in s.features:
                    ctx.probe("boundary inside string escape")
                if "name-hex" in s.features:
                    ctx.probe("boundary inside name #xx")
        if len(canons) > 1:
            devs.append(Dev("C01:streamparser:schedule-dependent", "spelling=%r gives %d different results over schedules" % (data, len(canons))))
        # ---------------- path 2: PDFDocument.getobj
        fw = FileWriter(tape=t, wild=True)
        fw.add_object(1, {b"Type": Name(b"Catalog")}, wild=False)
        offset = t.pick([0, 0, 1, 17, 4000, 4090, 4096, 4100, 8192, 12288], "offset") + t.draw(64, "offset.fine")
        fw.pad(offset)
        if fw.pos() > 4096:
            ctx.probe("object offset beyond 4096")
        gen = t.pick([0, 0, 0, 1, 7, 65535], "objgen")
        # serialise the value through the quirk-recording serialiser
        off = fw.pos()
        fw.buf += b"2 %d obj" % gen
        s2 = OddHexSer(t, True, base=fw.pos(), nul_ws=nul_ws)
        s2.last_regular = True
        s2.value(value)
        s2.keyword(b"endobj")
        fw.buf += s2.out
        fw.buf += t.pick([b"\n", b" ", b"\r\n", b"\r"], "endobj.ws")
        fw.offsets[2] = (off, gen)
        for f in s2.features:
            ctx.probe(f)
        fw.xref_table({0: (None, 65535), 1: fw.offsets[1], 2: fw.offsets[2]}, {b"Size": 3, b"Root": Ref(1, 0)})
        fb = fw.getvalue()
        cuts = s2.cuts + fw.cuts
        canons = set()
        for k in range(3):
            pol, desc = (None, "default") if k == 0 else seams.draw_chunk_policy(t, cuts or None, allow_default=False)
            caching = not t.coin(30, 100, "caching")
            if not caching:
                ctx.probe("caching off")
            ctx.seam("chunk")
            seams.CHUNK.nondefault = 0
            res = read_doc_path(fb, [2], pol, caching)[2]
            if seams.CHUNK.nondefault:
                nontrivial = True
            c = judge("doc", value, res, s2.quirks, desc + ("/caching" if caching else "/nocache"), fb[off : off + len(s2.out) + 30], devs, "getobj")
            canons.add(c)
            scen.append((bytes(s2.out), offset, desc))
        if len(canons) > 1:
            devs.append(Dev("C01:getobj:schedule-dependent", "object bytes=%r give %d different results over schedules" % (bytes(s2.out), len(canons))))
        if samples is None:
            samples = {"value": repr(value)[:300], "spelling": repr(data)[:300], "object_offset": off, "features": sorted(s.features | s2.features)}
    seams.CHUNK.nondefault = 0
    seen = {}
    for d in devs:
        seen.setdefault(d.sig, d)
    tape.note(scen)
    return Outcome(list(seen.values()), scen=repr(scen), nontrivial=nontrivial, sample=samples)


def jobs(tier, seed):
    import checks.c01 as me

    return core.std_jobs(me, tier, seed)
