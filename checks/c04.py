"""C04 - page tree: order, inheritance, rotation/box normalisation, selection, cycle termination (DESIGN 5/C04).

Workload : rooted trees of Pages/Page nodes with inheritable attributes placed on any subset of nodes (direct or
           indirect values), boxes with non-zero origin and either corner order, Rotate any multiple of 90.
Schedule : structural faults in /Kids (repeat, back-edge to ancestor/self/root, cross-link) under the step clock;
           the lazily stepped get_pages iterator (consumer may stop early); page_numbers x maxpages; caching,
           eviction, chunk schedule.
Oracle   : reference DFS with nearest-ancestor inheritance, first-reach order, each node once; per page mediabox /
           cropbox / rotate / resources; LTPage.bbox and marker-glyph device position; selection formula.
"""
from io import BytesIO

from sim import core, docs, seams
from sim.core import Dev, Outcome
from sim.oracle import match, where
from sim.pdfwriter import Name, Real, Ref

ID = "C04"
LEVEL = "exploration"
RULE = (
    "a case = one generated page tree (depth <= 7, <= 40 leaves) with tape-placed inheritable attributes and one "
    "marker glyph per page, optionally with one structural fault in /Kids (35% of cases), read (a) through a lazily "
    "stepped PDFPage.get_pages iterator with tape-chosen page_numbers/maxpages, (b) through extract_pages and "
    "(c) extract_text with the same selection, under a step-clock budget, chunk schedule, caching flag and eviction. "
    "distinct = distinct (file bytes, selection); non-trivial = tree has >= 2 levels of Pages nodes or a fault."
)
COMPONENTS_REAL = ["pdfminer.pdfpage.PDFPage (create_pages, get_pages, box parsing)", "pdfminer.pdfinterp.PDFPageInterpreter.process_page", "pdfminer.converter.PDFLayoutAnalyzer.begin_page", "pdfminer.high_level.extract_pages/extract_text", "pdfminer.pdfdocument"]
COMPONENTS_STUB = ["file object: io.BytesIO over SimWriter output", "step clock (sys.monitoring)", "BUFSIZ chunk seam", "eviction wrapper"]
ASSUMPTIONS = [
    "page_numbers non-empty; Rotate an integer multiple of 90",
    "with cross-links / repeats, attributes are compared only for pages with a single incoming Kids edge (the statement fixes order and once-only, not which parent a doubly-linked page inherits from)",
    "a page with no MediaBox anywhere defaults to US Letter (documented fallback)",
    "step budget = 400 monitored events per input byte + 200000",
]
PROBES = ["/Count disagrees with the tree", "page object outside the tree", "page tree 70 to 300 levels deep", "page tree more than 1000 levels deep", "/Parent points elsewhere", "walk abandoned, then repeated on the same document", "fault:repeat", "fault:self", "fault:ancestor", "fault:root", "fault:cross", "reversed corners", "rotate negative", "indirect attribute", "inherited from grandparent", "consumer stopped early", "page_numbers with maxpages", "eviction happened"]
TIERS = {
    "quick": {"batches": 16, "runs": 700, "budget_s": 90},
    "thorough": {"batches": 128, "runs": 800, "budget_s": 900},
}
DETERMINISM_SLICE = 4
_ready = False


def setup():
    global _ready, PDFPage, extract_pages, extract_text, LTChar, LTPage
    if _ready:
        return
    core.import_sut()
    from pdfminer.high_level import extract_pages, extract_text
    from pdfminer.layout import LTChar, LTPage
    from pdfminer.pdfpage import PDFPage

    seams.install_chunk_seam()
    seams.EVICT.install()
    seams.CLOCK.install()
    _ready = True


def label_of(i):
    return bytes((65 + i // 26, 97 + i % 26))


class OnlyContains:
    """A container that offers nothing but `in` (the documented type of page_numbers is Container[int])."""

    def __init__(self, items):
        self._items = frozenset(items)

    def __contains__(self, x):
        return x in self._items

    def __repr__(self):
        return "OnlyContains(%r)" % sorted(self._items)


class Node:
    def __init__(self, oid, kind):
        self.oid = oid
        self.kind = kind  # 'pages' | 'page'
        self.kids = []
        self.attrs = {}  # name -> model value (python), for the four inheritable attributes
        self.parent = None


def num(t):
    v = t.rint(-40, 700, "box.n")
    if t.coin(25, 100, "box.half"):
        return v + 0.5
    return v


def gen_box(t, ctx):
    x0, y0 = num(t), num(t)
    w, h = t.rint(50, 600, "box.w"), t.rint(50, 800, "box.h")
    box = [x0, y0, x0 + w, y0 + h]
    if t.coin(15, 100, "box.rev"):
        ctx.probe("reversed corners")
        k = t.draw(3, "box.revkind")
        if k == 0:
            box = [box[2], box[3], box[0], box[1]]
        elif k == 1:
            box = [box[2], box[1], box[0], box[3]]
        else:
            box = [box[0], box[3], box[2], box[1]]
    return box


def norm(box):
    return (float(min(box[0], box[2])), float(min(box[1], box[3])), float(max(box[0], box[2])), float(max(box[1], box[3])))


rescats = {}  # object number of a node with /Resources -> sorted category names of that dictionary (last built document)


def build(t, ctx):
    """-> (objects dict, root Pages node, all nodes, font resource table)"""
    counter = [2]
    nodes = {}
    leaves = [0]

    def new(kind):
        counter[0] += 1
        n = Node(counter[0], kind)
        nodes[n.oid] = n
        return n

    maxleaves = t.pick([1, 2, 4, 8, 16, 40], "maxleaves")

    def grow(node, depth):
        nk = t.pick([0, 1, 1, 2, 3, 4, 6], "nkids") if depth else t.pick([1, 2, 3, 5], "nkids0")
        for _ in range(nk):
            if leaves[0] >= maxleaves:
                break
            if depth < 6 and t.coin(35 if depth < 3 else 15, 100, "kid.pages"):
                c = new("pages")
                c.parent = node
                node.kids.append(c)
                grow(c, depth + 1)
            else:
                c = new("page")
                c.parent = node
                node.kids.append(c)
                leaves[0] += 1

    root = Node(2, "pages")
    nodes[2] = root
    grow(root, 0)
    # attributes
    resvariants = {}
    for n in nodes.values():
        p = 45 if n.kind == "pages" else 30
        if n is root:
            p = 75
        if t.coin(p, 100, "attr.res"):
            k = t.draw(len(docs.STD14), "attr.font")
            n.attrs["Resources"] = k
        if t.coin(p, 100, "attr.media"):
            n.attrs["MediaBox"] = gen_box(t, ctx)
        if t.coin(20, 100, "attr.crop"):
            n.attrs["CropBox"] = gen_box(t, ctx)
        if t.coin(30, 100, "attr.rot"):
            r = 90 * t.rint(-8, 12, "attr.rotv")
            if r < 0:
                ctx.probe("rotate negative")
            n.attrs["Rotate"] = r
    return root, nodes, counter


def inject_fault(t, ctx, root, nodes):
    pages_nodes = [n for n in nodes.values() if n.kind == "pages"]
    kind = t.pick(["repeat", "self", "ancestor", "root", "cross"], "fault.kind")
    site = t.pick(pages_nodes, "fault.site")
    pos = t.draw(len(site.kids) + 1, "fault.pos")
    if kind == "repeat":
        if not site.kids:
            return None
        target = t.pick(site.kids, "fault.target")
    elif kind == "self":
        target = site
    elif kind == "ancestor":
        if site.parent is None:
            target = site
        else:
            anc = []
            a = site.parent
            while a is not None:
                anc.append(a)
                a = a.parent
            target = t.pick(anc, "fault.anc")
    elif kind == "root":
        target = root
    else:
        target = t.pick(list(nodes.values()), "fault.cross")
    site.kids.insert(pos, target)
    ctx.probe("fault:" + kind)
    ctx.fault(kind)
    return (kind, site.oid, target.oid, pos)


def reference_order(root):
    """First-reach DFS, each node once; returns list of (page node, inherited attrs dict, parent chain depth)."""
    out = []
    visited = set()

    def walk(n, inherited, depth):
        if n.oid in visited:
            return
        visited.add(n.oid)
        eff = dict(inherited)
        src = dict((k, depth_src) for k, depth_src in inherited.get("_src", {}).items())
        for k, v in n.attrs.items():
            eff[k] = v
            src[k] = depth
            if k == "Resources":
                eff["_resdef"] = n.oid  # the node whose /Resources the page gets, as a whole
        eff["_src"] = src
        if n.kind == "pages":
            for c in n.kids:
                walk(c, eff, depth + 1)
        else:
            out.append((n, eff, depth))

    walk(root, {}, 0)
    return out


def serialise(t, ctx, root, nodes, counter):
    objects = {1: {b"Type": Name(b"Catalog"), b"Pages": Ref(2, 0)}}
    fontobjs = {}

    def indirect(v, label):
        if t.coin(30, 100, label):
            counter[0] += 1
            objects[counter[0]] = v
            ctx.probe("indirect attribute")
            return Ref(counter[0], 0)
        return v

    def fontref(k):
        if k not in fontobjs:
            counter[0] += 1
            objects[counter[0]] = docs.std_font(docs.STD14[k])
            fontobjs[k] = counter[0]
        return Ref(fontobjs[k], 0)

    def numv(x):
        return x if isinstance(x, int) else Real(repr(float(x)))

    page_index = {}
    order = reference_order(root)
    for i, (n, eff, d) in enumerate(order):
        page_index[n.oid] = i
    marks = {}
    rescats.clear()
    for n in nodes.values():
        d = {b"Type": Name(b"Pages" if n.kind == "pages" else b"Page")}
        if n.parent is not None:
            d[b"Parent"] = Ref(n.parent.oid, 0)
            if t.coin(8, 100, "parent.elsewhere"):
                # /Parent names something that is not the node listing this one in its /Kids: a decoy outside the tree that
                # carries every inheritable attribute, another node of the tree, or nothing at all.  Attributes are
                # inherited along the /Kids path the walk takes; /Parent decides nothing
                how = t.pick(["decoy", "other", "missing"], "parent.elsewhere.how")
                if how == "decoy":
                    counter[0] += 1
                    objects[counter[0]] = {b"Type": Name(b"Pages"), b"Kids": [], b"Count": 0, b"Rotate": 90, b"MediaBox": [5, 5, 55, 55], b"CropBox": [6, 6, 50, 50], b"Resources": {b"Font": {b"F1": docs.std_font(b"Symbol")}, b"Decoy": {}}}
                    d[b"Parent"] = Ref(counter[0], 0)
                elif how == "other":
                    others = [m for m in nodes.values() if m.kind == "pages" and m is not n.parent and m is not n]
                    if others:
                        d[b"Parent"] = Ref(t.pick(others, "parent.elsewhere.node").oid, 0)
                else:
                    d[b"Parent"] = Ref(9999, 0)
                ctx.probe("/Parent points elsewhere")
        if "Resources" in n.attrs:
            k = n.attrs["Resources"]
            fd = {b"F1": fontref(k)} if not t.coin(20, 100, "font.direct") else {b"F1": docs.std_font(docs.STD14[k])}
            res = {b"Font": indirect(fd, "ind.fontdict"), b"ProcSet": [Name(b"PDF"), Name(b"Text")]}
            # further categories, differing from node to node: a node's /Resources replaces its ancestor's as a whole
            cats = [c for c in (b"ExtGState", b"ColorSpace", b"Properties") if t.coin(35, 100, "res.cat")]
            for c in cats:
                res[c] = {b"R%d" % n.oid: {b"Type": Name(c)} if c != b"ColorSpace" else Name(b"DeviceRGB")}
            rescats[n.oid] = sorted(["Font", "ProcSet"] + [c.decode() for c in cats])
            d[b"Resources"] = indirect(res, "ind.res")
        for key in ("MediaBox", "CropBox"):
            if key in n.attrs:
                arr = [numv(x) for x in n.attrs[key]]
                if t.coin(15, 100, "ind.boxelem"):
                    arr = [indirect(x, "ind.boxelem1") for x in arr]
                d[key.encode()] = indirect(arr, "ind.box")
        if "Rotate" in n.attrs:
            d[b"Rotate"] = indirect(n.attrs["Rotate"], "ind.rot")
        if n.kind == "pages":
            d[b"Kids"] = indirect([Ref(c.oid, 0) for c in n.kids], "ind.kids")
            d[b"Count"] = sum(1 for c in n.kids if c.kind == "page")
            if t.coin(12, 100, "count.stale"):
                # /Count is a hint other readers use: stale, inflated or nonsense, it decides nothing about the pages
                d[b"Count"] = t.pick([d[b"Count"] + 1, d[b"Count"] + 7, 0, -1, 10 ** 6, d[b"Count"] * 2 + 1], "count.value")
                ctx.probe("/Count disagrees with the tree")
        else:
            i = page_index.get(n.oid)
            lab = label_of(i) if i is not None else b"zz"
            px, py = t.rint(0, 40, "mark.x") * 2, t.rint(0, 40, "mark.y") * 2
            marks[n.oid] = (px, py)
            counter[0] += 1
            cid = counter[0]
            content = b"BT /F1 8 Tf %d %d Td (%s) Tj ET" % (px, py, lab)
            objects[cid] = docs.content_stream(content, flate=t.coin(30, 100, "content.flate"))
            d[b"Contents"] = Ref(cid, 0) if t.coin(80, 100, "content.ref") else [Ref(cid, 0)]
        objects[n.oid] = d
    if any(n.kind == "page" for n in nodes.values()) and t.coin(12, 100, "orphan.page"):
        # a page object that no /Kids array mentions (left behind by an editor): it is not a page of the document
        counter[0] += 1
        oid = counter[0]
        counter[0] += 1
        objects[counter[0]] = docs.content_stream(b"BT /F1 8 Tf 10 10 Td (orphan) Tj ET")
        objects[oid] = {b"Type": Name(b"Page"), b"Parent": Ref(min(n.oid for n in nodes.values() if n.kind == "pages"), 0), b"MediaBox": [0, 0, 111, 222], b"Contents": Ref(counter[0], 0), b"Resources": {b"Font": {b"F1": docs.std_font(b"Courier")}}}
        ctx.probe("page object outside the tree")
    form = t.pick(["table", "table", "stream"], "form")
    pack = [i for i in objects if t.coin(50, 100, "pack")] if form == "stream" else None
    fw = docs.build_pdf(objects, 1, form=form, pack=pack, order=t.shuffle(sorted(objects), "objorder"))
    return fw.getvalue(), order, marks, list(fw.cuts)


def expected_geometry(eff, mark):
    mb = norm(eff["MediaBox"]) if "MediaBox" in eff else (0.0, 0.0, 612.0, 792.0)
    cb = norm(eff["CropBox"]) if "CropBox" in eff else mb
    rot = eff.get("Rotate", 0) % 360
    X0, Y0, X1, Y1 = mb
    w, h = X1 - X0, Y1 - Y0
    x, y = mark
    if rot == 0:
        dev, size = (x - X0, y - Y0), (w, h)
    elif rot == 90:
        dev, size = (y - Y0, X1 - x), (h, w)
    elif rot == 180:
        dev, size = (X1 - x, Y1 - y), (w, h)
    else:
        dev, size = (Y1 - y, x - X0), (h, w)
    return mb, cb, rot, dev, size


def chars_of(item):
    if isinstance(item, LTChar):
        yield item
    elif hasattr(item, "__iter__"):
        for c in item:
            yield from chars_of(c)


def deep_tree_case(t, ctx):
    """A page tree dozens to over a thousand levels deep (a chain of /Pages nodes; every k-th level also lists a page):
    every page comes out, in order, with the attributes of its nearest ancestors."""
    depth = t.pick([70, 130, 300, 1200], "deep.depth")
    every = t.pick([1, 7, 50], "deep.every")
    ctx.probe("page tree %s levels deep" % ("more than 1000" if depth > 1000 else "70 to 300"))
    o = {1: {b"Type": Name(b"Catalog"), b"Pages": Ref(10, 0)}}
    nxt = [10 + depth + 5]
    want = []  # (page object number, expected rotate, expected mediabox)
    rot, box = 0, (0.0, 0.0, 612.0, 792.0)
    for d in range(depth):
        node = {b"Type": Name(b"Pages"), b"Count": 1}
        if d:
            node[b"Parent"] = Ref(9 + d, 0)
        if d % 40 == 0:
            rot = (90 * (d // 40)) % 360
            box = (float(d), 0.0, float(d + 100), 200.0)
            node[b"Rotate"] = rot
            node[b"MediaBox"] = [d, 0, d + 100, 200]
        kids = []
        if d % every == 0 or d == depth - 1:
            nxt[0] += 1
            o[nxt[0]] = {b"Type": Name(b"Page"), b"Parent": Ref(10 + d, 0)}
            kids.append(Ref(nxt[0], 0))
            want.append((nxt[0], rot, box, d))
        o[10 + d] = node
        node[b"Kids"] = kids
    # chain the nodes: each node lists its page (if any) first or last, then the next level
    for d in range(depth - 1):
        first = t.coin(50, 100, "deep.pagefirst")
        o[10 + d][b"Kids"] = (o[10 + d][b"Kids"] + [Ref(11 + d, 0)]) if first else ([Ref(11 + d, 0)] + o[10 + d][b"Kids"])
        o[10 + d]["_pagefirst"] = first
    # expected order: depth-first
    order = []

    def expect(d):
        stack = []
        while d < depth:
            mine = [w for w in want if w[3] == d]
            first = o[10 + d].pop("_pagefirst", True)
            if first:
                order.extend(mine)
            else:
                stack.append(mine)
            d += 1
        while stack:
            order.extend(stack.pop())

    expect(0)
    data = docs.build_pdf(o, 1).getvalue()
    devs = []
    for caching in (True, False):
        try:
            seams.CLOCK.start(400 * (len(data) + 5000))
            try:
                got = [(p.pageid, p.rotate, tuple(p.mediabox)) for p in PDFPage.get_pages(BytesIO(data), caching=caching)]
            finally:
                seams.CLOCK.stop()
            exp = [(a, b, c) for a, b, c, _ in order]
            if got != exp:
                k = next((i for i, (x, y) in enumerate(zip(got, exp)) if x != y), min(len(got), len(exp)))
                devs.append(Dev("C04:deep-tree", "tree %d levels deep: %d pages, expected %d; first difference at index %d: %r, expected %r; caching=%s" % (depth, len(got), len(exp), k, got[k : k + 1], exp[k : k + 1], caching)))
        except seams.SimBudgetExceeded:
            devs.append(Dev("C04:deep-tree:step-budget-exceeded", "tree %d levels deep; caching=%s" % (depth, caching)))
        except Exception as e:
            devs.append(Dev("C04:deep-tree:raise:%s@%s" % (type(e).__name__, where(e)), "tree %d levels deep: %r; caching=%s" % (depth, e, caching)))
    seen = {}
    for dv in devs:
        seen.setdefault(dv.sig, dv)
    t.note((depth, every))
    return Outcome(list(seen.values()), scen=repr((depth, every, len(data))), nontrivial=True, sample={"pages": len(order), "nodes": depth, "fault": None, "page_numbers": "None", "maxpages": 0, "expected_indices": [], "file_bytes": len(data), "chunk": "default"})


def run(tape, ctx, item=None):
    if tape.coin(1, 300, "deep.tree"):
        return deep_tree_case(tape, ctx)
    return run_tree(tape, ctx, item)


def run_tree(tape, ctx, item=None):
    t = tape
    devs = []
    root, nodes, counter = build(t, ctx)
    fault = inject_fault(t, ctx, root, nodes) if t.coin(35, 100, "fault") else None
    data, order, marks, cuts = serialise(t, ctx, root, nodes, counter)
    n = len(order)
    single_edge = {}
    for nd in nodes.values():
        if nd.kind == "pages":
            for c in nd.kids:
                single_edge[c.oid] = single_edge.get(c.oid, 0) + 1
    for nd, eff, d in order:
        src = eff.get("_src", {})
        if any(d - s >= 2 for s in src.values()):
            ctx.probe("inherited from grandparent")
    # selection
    sel_kind = t.draw(5, "sel.kind")
    if n == 0 or sel_kind == 0:
        page_numbers = None
    else:
        k = t.rint(1, max(1, min(n + 1, 6)), "sel.k")
        cand = [t.draw(n + 2, "sel.i") for _ in range(k)]
        page_numbers = {1: set(cand), 2: sorted(set(cand)), 3: range(min(cand), max(cand) + 1), 4: OnlyContains(cand)}[sel_kind]
    maxpages = t.pick([0, 0, 1, 2, 3, n, n + 2, max(0, n - 1), -1, 10**9], "sel.max")
    if page_numbers is not None and maxpages:
        ctx.probe("page_numbers with maxpages")
    want_idx = [i for i in range(n) if (page_numbers is None or i in page_numbers) and (maxpages == 0 or i < maxpages)]
    pol, pdesc = seams.draw_chunk_policy(t, cuts)
    caching = not t.coin(30, 100, "caching")
    ev = seams.draw_evict(t)
    budget = 400 * len(data) + 200000
    cfg = "fault=%s pages=%d page_numbers=%r maxpages=%d chunk=%s caching=%s evict=%s" % (fault, n, page_numbers, maxpages, pdesc, caching, bool(ev))
    ctx.seam("chunk")
    ctx.seam("evict", 1 if ev else 0)

    def guarded(name, fn, mult=1):
        seams.CHUNK.policy = pol
        seams.EVICT.set(ev)
        seams.CLOCK.start(budget * mult)
        try:
            return fn()
        except seams.SimBudgetExceeded:
            devs.append(Dev("C04:%s:step-budget-exceeded" % name, "more than %d steps; %s" % (budget, cfg)))
        except RecursionError as e:
            devs.append(Dev("C04:%s:RecursionError" % name, "%s" % cfg))
        except Exception as e:
            devs.append(Dev("C04:%s:raise:%s@%s" % (name, type(e).__name__, where(e)), "%r; %s" % (e, cfg)))
        finally:
            ctx.steps += seams.CLOCK.stop()
            seams.CHUNK.policy = None
            seams.EVICT.set(None)
        return None

    # (a) lazily stepped get_pages
    stop_after = t.draw(len(want_idx) + 2, "stop") if t.coin(30, 100, "stop.early") else None

    def pull():
        got = []
        it = PDFPage.get_pages(BytesIO(data), page_numbers, maxpages=maxpages, caching=caching)
        for k, page in enumerate(it):
            got.append(page)
            if stop_after is not None and k + 1 >= stop_after:
                ctx.probe("consumer stopped early")
                break
        return got

    seams.EVICT.evictions = 0
    got = guarded("get_pages", pull)
    if got is not None:
        want_ids = [order[i][0].oid for i in want_idx]
        if stop_after is not None:
            want_ids = want_ids[: max(stop_after, 0)] if stop_after > 0 else want_ids[:1]
        got_ids = [p.pageid for p in got]
        if got_ids != want_ids:
            if fault is None and all(order[i][0].oid in got_ids for i in want_idx) is False or True:
                devs.append(Dev("C04:selection-or-order", "pages yielded (object ids) %r, expected %r; %s" % (got_ids, want_ids, cfg)))
        else:
            for page, i in zip(got, want_idx):
                nd, eff, d = order[i]
                if single_edge.get(nd.oid, 0) != 1:
                    continue
                mb, cb, rot, dev, size = expected_geometry(eff, marks[nd.oid])
                if tuple(page.mediabox) != mb:
                    devs.append(Dev("C04:mediabox", "page index %d (obj %d): mediabox %r, expected %r (from %r); %s" % (i, nd.oid, page.mediabox, mb, eff.get("MediaBox"), cfg)))
                if tuple(page.cropbox) != cb:
                    devs.append(Dev("C04:cropbox", "page index %d (obj %d): cropbox %r, expected %r; %s" % (i, nd.oid, page.cropbox, cb, cfg)))
                if page.rotate != rot:
                    devs.append(Dev("C04:rotate", "page index %d: rotate %r, expected %r (Rotate=%r); %s" % (i, page.rotate, rot, eff.get("Rotate"), cfg)))
                # resources: the font of the nearest ancestor defining Resources
                try:
                    from pdfminer.pdftypes import dict_value, resolve1

                    if "Resources" in eff:
                        if sorted(dict_value(page.resources)) != rescats.get(eff["_resdef"]):
                            devs.append(Dev("C04:resources", "page index %d: resource categories %r, the defining node (obj %d) has %r; %s" % (i, sorted(dict_value(page.resources)), eff["_resdef"], rescats.get(eff["_resdef"]), cfg)))
                        f = dict_value(dict_value(dict_value(page.resources)["Font"])["F1"])
                        if f.get("BaseFont") is None or f["BaseFont"].name != docs.STD14[eff["Resources"]].decode():
                            devs.append(Dev("C04:resources", "page index %d: font %r, expected %r; %s" % (i, f.get("BaseFont"), docs.STD14[eff["Resources"]], cfg)))
                    elif resolve1(page.resources):
                        devs.append(Dev("C04:resources", "page index %d: resources %r but none defined on its ancestors; %s" % (i, page.resources, cfg)))
                except Exception as e:
                    devs.append(Dev("C04:resources", "page index %d: %r; %s" % (i, e, cfg)))
    if seams.EVICT.evictions:
        ctx.probe("eviction happened", seams.EVICT.evictions)
    # (b) extract_pages: LTPage.bbox and marker glyph
    lt = guarded("extract_pages", lambda: list(extract_pages(BytesIO(data), page_numbers=page_numbers, maxpages=maxpages, caching=caching)))
    if lt is not None:
        if len(lt) != len(want_idx):
            devs.append(Dev("C04:extract_pages-count", "%d LTPage objects, expected %d; %s" % (len(lt), len(want_idx), cfg)))
        else:
            for ltp, i in zip(lt, want_idx):
                nd, eff, d = order[i]
                if single_edge.get(nd.oid, 0) != 1:
                    continue
                mb, cb, rot, dev, size = expected_geometry(eff, marks[nd.oid])
                if tuple(ltp.bbox) != (0, 0, size[0], size[1]):
                    devs.append(Dev("C04:ltpage-bbox", "page index %d: LTPage.bbox %r, expected (0,0,%r,%r) for mediabox %r rotate %d; %s" % (i, ltp.bbox, size[0], size[1], mb, rot, cfg)))
                if "Resources" not in eff:
                    continue
                cs = list(chars_of(ltp))
                if len(cs) != 2:
                    devs.append(Dev("C04:marker-glyphs", "page index %d: %d glyphs, expected 2; %s" % (i, len(cs), cfg)))
                    continue
                first = [c for c in cs if c.get_text() == chr(label_of(i)[0])]
                if len(first) != 1 or sorted(c.get_text() for c in cs) != sorted(label_of(i).decode()):
                    devs.append(Dev("C04:marker-text", "page index %d shows %r, expected the glyphs of %r; %s" % (i, [c.get_text() for c in cs], label_of(i), cfg)))
                    continue
                c0 = first[0]
                if abs(c0.matrix[4] - dev[0]) > 1e-6 or abs(c0.matrix[5] - dev[1]) > 1e-6:
                    devs.append(Dev("C04:glyph-position", "page index %d: marker at user (%r,%r) mediabox %r rotate %d -> device (%r,%r), expected %r; %s" % (i, marks[nd.oid][0], marks[nd.oid][1], mb, rot, c0.matrix[4], c0.matrix[5], dev, cfg)))
                if c0.fontname != docs.STD14[eff["Resources"]].decode():
                    devs.append(Dev("C04:glyph-font", "page index %d: font %r, expected %r; %s" % (i, c0.fontname, docs.STD14[eff["Resources"]], cfg)))
    # (c) extract_text selection
    txt = guarded("extract_text", lambda: extract_text(BytesIO(data), page_numbers=page_numbers, maxpages=maxpages, caching=caching))
    if txt is not None:
        parts = txt.split("\x0c")
        if parts and parts[-1] == "":
            parts = parts[:-1]
        if len(parts) != len(want_idx):
            devs.append(Dev("C04:extract_text-pages", "%d form feeds, expected %d pages; %s" % (len(parts), len(want_idx), cfg)))
        else:
            for part, i in zip(parts, want_idx):
                nd, eff, d = order[i]
                if "Resources" in eff and single_edge.get(nd.oid, 0) == 1 and sorted("".join(part.split())) != sorted(label_of(i).decode()):
                    devs.append(Dev("C04:extract_text-wrong-page", "page index %d text %r, expected %r; %s" % (i, part, label_of(i), cfg)))
    # (d) one document object, several walks: a walk that is abandoned after k pages, then complete walks - each walk
    #     is a function of the document alone
    if t.coin(35, 100, "rewalk"):
        ctx.probe("walk abandoned, then repeated on the same document")
        k_stop = t.draw(n + 1, "rewalk.stop")

        def rewalk():
            from pdfminer.pdfdocument import PDFDocument
            from pdfminer.pdfparser import PDFParser

            doc = PDFDocument(PDFParser(BytesIO(data)), caching=caching)
            it = PDFPage.create_pages(doc)
            for _ in range(k_stop):
                if next(it, None) is None:
                    break
            first = [p.pageid for p in PDFPage.create_pages(doc)]
            second = [p.pageid for p in PDFPage.create_pages(doc)]
            rest = [p.pageid for p in it]  # the abandoned walk, resumed afterwards
            return first, second, rest

        rw = guarded("create_pages", rewalk, mult=4)  # (up to four walks over the tree: four single budgets)
        if rw is not None:
            all_ids = [nd.oid for nd, _, _ in order]
            if rw[0] != all_ids or rw[1] != all_ids or rw[2] != all_ids[min(k_stop, len(all_ids)) :]:
                devs.append(Dev("C04:rewalk", "after a walk abandoned at %d pages: complete walks %r and %r, the resumed walk %r; the tree has %r; %s" % (k_stop, rw[0], rw[1], rw[2], all_ids, cfg)))
    seen = {}
    for dv in devs:
        seen.setdefault(dv.sig, dv)
    tape.note(cfg)
    depth2 = any(c.kind == "pages" for c in root.kids)
    sample = {"pages": n, "nodes": len(nodes), "fault": fault, "page_numbers": repr(page_numbers), "maxpages": maxpages, "expected_indices": want_idx, "file_bytes": len(data), "chunk": pdesc}
    return Outcome(list(seen.values()), scen=repr((data, cfg)), nontrivial=depth2 or fault is not None, sample=sample)


def jobs(tier, seed):
    import checks.c04 as me

    return core.std_jobs(me, tier, seed)
