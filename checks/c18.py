"""C18 - images: exported files and inline image data reproduce the samples exactly (DESIGN 5/C18).

Workload : image XObjects and inline images: gray 8, RGB 8, 1-bit; width x height 1..40; unfiltered, lossless filter
           chains (sim.encoders), DCT (arbitrary FFD8.. blobs); inline dictionaries with abbreviated keys/values; inline
           data = arbitrary bytes not containing the end marker; text shown after each image.
Schedule : the inline-data scanner (get_inline_data) is a refill-driven state machine: chunk schedule with boundaries
           placed inside ID, between E and I, between EI and the following byte, and a /Contents stream boundary right
           after the image; FS state for export (pre-existing names; several images exported in one run) in a forked
           child under the audit monitor.
Oracle   : LTImage.stream.get_data(), srcsize, bits, colorspace == model; glyphs after an inline image == glyphs of the
           same program without it; each exported .bmp read by an independent BMP reader yields exactly the stored
           samples; .jpg byte-identical; returned names distinct, each file written once, nothing overwritten.
"""
import io
import re
import os
import struct

from sim import core, docs, encoders, seams
from sim.core import Dev, Outcome
from sim.oracle import where
from sim.pdfwriter import Name, Ref, Ser
from sim.scratch import Scratch

ID = "C18"
LEVEL = "exploration"
RULE = (
    "a case = one document with 1..4 images (XObject or inline; gray8 / rgb8 / 1-bit / DCT; 1..40 x 1..40; filter chain "
    "of length 0..2) each followed by a text line; read through extract_pages under 3 chunk schedules (default, placed "
    "boundaries inside the inline-image markers, drawn) with the content optionally split into a /Contents array right "
    "after an image, and exported once with extract_text_to_fp(output_dir=...) into a tape-chosen output-directory state "
    "in a forked child under the audit monitor. distinct = distinct (document bytes, schedule, FS state); non-trivial = "
    "at least one inline image or one exported bitmap with row padding."
)
COMPONENTS_REAL = ["pdfminer.pdfinterp.PDFContentParser (BI/ID/EI, get_inline_data)", "pdfminer.pdfinterp.do_EI / do_Do", "pdfminer.converter.render_image", "pdfminer.layout.LTImage", "pdfminer.image.ImageWriter / BMPWriter", "pdfminer.pdftypes.PDFStream"]
COMPONENTS_STUB = ["file object: io.BytesIO over SimWriter output", "BUFSIZ chunk seam (content parser refills)", "scratch output directory with pre-existing files; audit-hook monitor; forked child", "BMP reader: harness code"]
ASSUMPTIONS = [
    "'the end marker' = EI followed by a byte for which bytes.isspace() is true; inline data is written as ID<space>data<LF>EI<LF> and does not end in CR",
    "export formats limited to those that do not need Pillow (DCT pass-through, 1-bit / 8-bit gray / 8-bit RGB bitmaps)",
]
PROBES = ["inline keys abbreviated one by one", "non-ASCII comment right behind the end marker", "file names reported in the XML compared with the files written", "stencil mask", "samples begin with a magic number", "run under settings.STRICT", "page with shifted MediaBox or /Rotate", "one ImageWriter for two documents", "ASCII85 inline data contains EI + white space", "two inline images with the same data bytes", "dct data continues behind the EOI marker", "CR after ID and data starting with LF", "dct behind further filters", "same XObject drawn twice", "inline image ending at the ASCII85 marker", "inline image", "xobject image", "gray8", "rgb8", "1bit", "dct", "filter chain", "unfiltered", "row padding needed", "boundary placed in inline markers", "contents split after image", "inline data contains EI", "preexisting export name", "two images same name", "bmp exported", "jpg exported"]
TIERS = {
    "quick": {"batches": 16, "runs": 450, "budget_s": 90},
    "thorough": {"batches": 128, "runs": 500, "budget_s": 1200},
}
DETERMINISM_SLICE = 4
_ready = False


def setup():
    global _ready, HL, L
    if _ready:
        return
    core.import_sut()
    import pdfminer.high_level as HL
    import pdfminer.layout as L

    seams.install_chunk_seam()
    seams.FSMON.install()
    _ready = True


FILTERS = ["FlateDecode", "LZWDecode", "RunLengthDecode", "ASCIIHexDecode", "ASCII85Decode"]


def gen_image(t, ctx, idx):
    kind = t.pick(["gray8", "rgb8", "1bit", "dct", "gray8", "rgb8"], "img.kind")
    ctx.probe(kind)
    w, h = t.pick([1, 2, 3, 4, 5, 7, 8, 9, 16, 17, 33, 40], "img.w"), t.pick([1, 2, 3, 5, 8, 13, 40], "img.h")
    inline = t.coin(45, 100, "img.inline")
    ctx.probe("inline image" if inline else "xobject image")
    if kind == "gray8":
        rowlen, bits, cs = w, 8, "DeviceGray"
    elif kind == "rgb8":
        rowlen, bits, cs = 3 * w, 8, "DeviceRGB"
    elif kind == "1bit":
        rowlen, bits, cs = (w + 7) // 8, 1, "DeviceGray"
    else:
        rowlen, bits, cs = 3 * w, 8, "DeviceRGB"
    if kind == "dct":
        samples = b"\xff\xd8\xff\xe0" + bytes(t.draw(256, "jpg.b") for _ in range(t.rint(4, 60, "jpg.n"))) + b"\xff\xd9"
        if t.coin(30, 100, "jpg.trail"):
            # stored bytes behind the end-of-image marker belong to the stored data too (byte for byte)
            samples += t.pick([b"\n", b"\r\n", b"\x00\x00", b"\xff\xd9\x00", b"trailer"], "jpg.trailbytes")
            ctx.probe("dct data continues behind the EOI marker")
        chain = ["DCTDecode"]
        data = samples
        if t.coin(35, 100, "dct.outer"):
            # the JPEG data behind further filters: [/A85 /DCT], [/Fl /DCT] ...
            outer = [t.pick(["ASCII85Decode", "FlateDecode", "ASCIIHexDecode"], "dct.outer.f") for _ in range(t.rint(1, 2, "dct.outer.n"))]
            if not inline or outer[0] != "ASCII85Decode":
                for f in reversed(outer):
                    data = encoders.ENCODERS[f](data, t)
                chain = outer + ["DCTDecode"]
                ctx.probe("dct behind further filters")
    else:
        mode = t.draw(4, "px.mode")
        if mode == 0:
            samples = bytes((i * 37 + idx) % 256 for i in range(rowlen * h))
        elif mode == 1:
            samples = bytes(t.draw(256, "px.b") for _ in range(rowlen * h))
        elif mode == 2:
            samples = bytes(t.pick(b"EI \n\rID\x00\xff", "px.evil") for _ in range(rowlen * h))
        else:
            samples = bytes((0xFF if (i // rowlen + i) % 2 else 0) for i in range(rowlen * h))
        if t.coin(6, 100, "px.magic") and len(samples) >= 4:
            # samples that begin like some file format's magic number are still samples
            magic = t.pick([b"\xff\xd8\xff\xe0", b"\xff\xd8\xff", b"\x89PNG", b"BM", b"GIF8", b"\x00\x00\x00\x0cjP", b"%PDF"], "px.magicbytes")
            samples = (magic + samples[len(magic) :])[: len(samples)]
            ctx.probe("samples begin with a magic number")
        n = t.weighted([3, 4, 2], "chain.n")
        chain = [t.pick(FILTERS, "chain.f") for _ in range(n)]
        if inline and chain and chain[0] == "ASCII85Decode":
            ctx.probe("inline image ending at the ASCII85 marker")  # ends at ~> (a code path of its own)
        data = samples
        for f in reversed(chain):
            data = encoders.ENCODERS[f](data, t)
        if inline and chain and chain[0] == "ASCII85Decode" and b"EI" in data[:-2] and t.coin(60, 100, "a85.ei"):
            # white space may stand anywhere in ASCII85 text - also behind the letters E I; the data still ends at ~>
            data = data[:-2].replace(b"EI", b"EI\n") + data[-2:]
            ctx.probe("ASCII85 inline data contains EI + white space")
        ctx.probe("filter chain" if chain else "unfiltered")
    if bits in (1, 8) and kind != "dct" and (rowlen % 4):
        ctx.probe("row padding needed")
    if kind == "1bit" and t.coin(35, 100, "img.mask"):
        ctx.probe("stencil mask")
        return {"mask": True, "kind": kind, "w": w, "h": h, "bits": bits, "cs": cs, "inline": inline, "samples": samples, "chain": chain, "data": data, "rowlen": rowlen}
    return {"kind": kind, "w": w, "h": h, "bits": bits, "cs": cs, "inline": inline, "samples": samples, "chain": chain, "data": data, "rowlen": rowlen}


ABBR_F = {"FlateDecode": "Fl", "LZWDecode": "LZW", "RunLengthDecode": "RL", "ASCIIHexDecode": "AHx", "ASCII85Decode": "A85", "DCTDecode": "DCT"}
ABBR_CS = {"DeviceGray": "G", "DeviceRGB": "RGB"}


def inline_ok_a85(data):
    """ASCII85-first inline data: the scanner ends at the first '~>' followed by white space (the encoder's EOD)."""
    return data.endswith(b"~>") and b"~>" not in data[:-2]


def inline_ok(data):
    """The scanner ends at E, I, white space: inline data must not contain that, nor end in CR / with E before the LF."""
    for i in range(len(data) - 2):
        if data[i : i + 2] == b"EI" and bytes(data[i + 2 : i + 3]).isspace():
            return False
    if data.endswith(b"EI") or data.endswith(b"\r") or data.endswith(b"E"):
        return False
    return True


def name_bytes(nm):
    s = Ser()
    s.name(Name(nm))
    return bytes(s.out)


def build_document(t, ctx, images, page_of, with_images=True, geom=(0, 0, 0)):
    ox, oy, rot = geom  # page geometry: MediaBox origin and /Rotate (everything is placed relative to the origin)
    objects = {}
    nxt = [3]

    def alloc(v):
        nxt[0] += 1
        objects[nxt[0]] = v
        return Ref(nxt[0], 0)

    font = alloc(docs.std_font(b"Helvetica"))
    npages = max(page_of) + 1
    xobjs = [dict() for _ in range(npages)]
    parts = [[] for _ in range(npages)]
    marks = []  # offsets of interest inside the content stream of the first page
    pos = [0] * npages
    names = []
    for i, im in enumerate(images):
        pg = page_of[i]
        place = b"q %d 0 0 %d %d %d cm " % (im["w"], im["h"], ox + 20 + 45 * i, oy + 500)
        if not with_images:
            seg = b""
        elif im["inline"]:
            abbr = t.coin(60, 100, "inl.abbr")
            d = b"/W %d /H %d /BPC %d " % (im["w"], im["h"], im["bits"]) if abbr else b"/Width %d /Height %d /BitsPerComponent %d " % (im["w"], im["h"], im["bits"])
            if t.coin(25, 100, "inl.mixedkeys"):
                # every key is abbreviated or not on its own
                d = b"".join((short if t.coin(50, 100, "inl.keyabbr") else full) + b" %d " % v for short, full, v in ((b"/W", b"/Width", im["w"]), (b"/H", b"/Height", im["h"]), (b"/BPC", b"/BitsPerComponent", im["bits"])))
                ctx.probe("inline keys abbreviated one by one")
            if im.get("mask"):
                d += (b"/IM true " if abbr else b"/ImageMask true ")  # a stencil mask has no colour space
            else:
                # key and value are abbreviated independently of one another
                vabbr = abbr if t.coin(70, 100, "inl.csvalue") else not abbr
                d += (b"/CS /" if abbr else b"/ColorSpace /") + (ABBR_CS[im["cs"]] if vabbr else im["cs"]).encode() + b" "
            if im["chain"]:
                fl = b" ".join(b"/" + (ABBR_F[f] if abbr else f).encode() for f in im["chain"])
                d += (b"/F " if abbr else b"/Filter ") + (b"[" + fl + b"]" if len(im["chain"]) > 1 or t.coin(30, 100, "inl.farr") else fl) + b" "
            # ID is followed by exactly one white-space byte; the byte after it is the first byte of the data whatever it is
            sep = t.pick([b" ", b" ", b"\n", b"\r", b"\t"], "inl.idsep") if not (im["chain"] and im["chain"][0] in ("ASCII85Decode", "ASCIIHexDecode")) else b" "
            if sep == b"\r" and im["data"][:1] == b"\n":
                ctx.probe("CR after ID and data starting with LF")
            head = place + b"BI " + d + b"ID" + sep
            # what follows the end marker is content like any other: operators, or a comment or string with any bytes in it
            post = t.pick([b"", b"", b"", b"%\xe9t\xe9 \x82\xa0\n", b"% \x00\x01\xff\n", b"%EI \n"], "inl.post")
            if post:
                ctx.probe("non-ASCII comment right behind the end marker")
            seg = head + im["data"] + b"\nEI\n" + post + b"Q "
            if pg == 0:
                base = pos[pg] + len(head)
                marks += [base - 2, base - 1, base, base + len(im["data"]), base + len(im["data"]) + 1, base + len(im["data"]) + 2, base + len(im["data"]) + 3, base + len(im["data"]) + 4]
            if b"EI" in im["data"]:
                ctx.probe("inline data contains EI")
            names.append(None)
        else:
            nm = b"Im1" if not xobjs[pg] else t.pick([b"Im2", b"Picture", b"a.b", b"Im1.0"], "xobj.name")
            if nm in xobjs[pg]:
                nm = nm + b"%d" % i
            d = {b"Type": Name(b"XObject"), b"Subtype": Name(b"Image"), b"Width": im["w"], b"Height": im["h"], b"BitsPerComponent": im["bits"], b"ColorSpace": Name(im["cs"].encode())}
            if im.get("mask"):
                del d[b"ColorSpace"]
                d[b"ImageMask"] = True
            if im["chain"]:
                fl = [Name(f.encode()) for f in im["chain"]]
                d[b"Filter"] = fl[0] if len(fl) == 1 and t.coin(60, 100, "x.fsingle") else fl
            st = docs.content_stream(im["data"], extra=d)
            xobjs[pg][nm] = alloc(st)
            seg = place + name_bytes(nm) + b" Do Q "
            names.append(nm.decode("latin-1"))
            if im.get("twice"):
                # the same XObject painted a second time: one more image item and one more exported file
                seg += b"q %d 0 0 %d %d %d cm " % (im["w"], im["h"], ox + 20 + 45 * i, oy + 300) + name_bytes(nm) + b" Do Q "
        text = b"BT /F1 9 Tf %d %d Td (after%d) Tj ET\n" % (ox + 20 + 45 * i, oy + 480, i)
        if im.get("notext"):
            text = b""  # the next image follows directly
        parts[pg].append(seg)
        parts[pg].append(text)
        pos[pg] += len(seg) + len(text)
    kids = []
    for pg in range(npages):
        content = b"".join(parts[pg])
        pieces = [content]
        if with_images and parts[pg] and t.coin(35, 100, "split"):
            k = t.draw(len(parts[pg]) // 2, "split.at")
            off = sum(len(p) for p in parts[pg][: 2 * k + 1])
            pieces = [content[:off], content[off:]]
            ctx.probe("contents split after image")
        refs = [alloc(docs.content_stream(p)) for p in pieces]
        kids.append(alloc({b"Type": Name(b"Page"), b"Parent": Ref(2, 0), b"MediaBox": [ox, oy, ox + 612, oy + 792], b"Rotate": rot, b"Contents": refs if len(refs) > 1 else refs[0], b"Resources": {b"Font": {b"F1": font}, b"XObject": xobjs[pg]}}))
    objects[1] = {b"Type": Name(b"Catalog"), b"Pages": Ref(2, 0)}
    objects[2] = {b"Type": Name(b"Pages"), b"Kids": kids, b"Count": len(kids)}
    return docs.build_pdf(objects, 1).getvalue(), [m for m in marks if m > 0], names


def items_of(page, cls):
    out = []

    def walk(x):
        if isinstance(x, cls):
            out.append(x)
        if isinstance(x, L.LTContainer):
            for c in x:
                walk(c)

    walk(page)
    return out


def read_bmp(b):
    """Independent BMP reader -> (width, height, bitcount, rows top-down as sample bytes in the PDF's component order)."""
    if b[:2] != b"BM":
        raise ValueError("no BM signature")
    fsize, _, _, off = struct.unpack("<IHHI", b[2:14])
    (hsize, w, h, planes, bpp, comp, isize, _, _, ncol, _) = struct.unpack("<IiiHHIIiiII", b[14:54])
    if hsize != 40 or planes != 1 or comp != 0:
        raise ValueError("unsupported header %r" % ((hsize, planes, comp),))
    if fsize != len(b):
        raise ValueError("file is %d bytes but its header declares %d" % (len(b), fsize))
    rowsize = ((w * bpp + 31) // 32) * 4
    if off + rowsize * abs(h) > len(b):
        raise ValueError("pixel data truncated: need %d bytes, file has %d" % (off + rowsize * abs(h), len(b)))
    palette = [b[54 + 4 * i : 54 + 4 * i + 3] for i in range((off - 54) // 4)]
    rows = []
    for y in range(abs(h)):
        src = off + rowsize * ((abs(h) - 1 - y) if h > 0 else y)
        row = b[src : src + rowsize]
        if bpp == 24:
            px = bytearray()
            for x in range(w):
                bl, g, r = row[3 * x : 3 * x + 3]
                px += bytes((r, g, bl))
            rows.append(bytes(px))
        elif bpp == 8:
            for i in set(row[:w]):
                if palette[i] != bytes((i, i, i)):
                    raise ValueError("palette entry %d is %r" % (i, palette[i]))
            rows.append(bytes(row[:w]))
        elif bpp == 1:
            if palette[:2] != [b"\x00\x00\x00", b"\xff\xff\xff"]:
                raise ValueError("1-bit palette %r" % (palette[:2],))
            rows.append(bytes(row[: (w + 7) // 8]))
        else:
            raise ValueError("bit count %d" % bpp)
    return w, abs(h), bpp, rows


def export_child(data, outdir, mode, sibling=None):
    err = None
    out = io.BytesIO()
    if sibling is not None:
        # one ImageWriter serves two documents in turn (a batch job): the sibling has the same object numbers but other
        # kinds of images; only the second document's export is monitored and judged
        from pdfminer.converter import TextConverter, XMLConverter
        from pdfminer.image import ImageWriter
        from pdfminer.layout import LAParams
        from pdfminer.pdfinterp import PDFPageInterpreter, PDFResourceManager
        from pdfminer.pdfpage import PDFPage

        iw = ImageWriter(outdir)

        def run_doc(d, fp):
            rm = PDFResourceManager()
            dev = (XMLConverter if mode == "xml" else TextConverter)(rm, fp, codec="utf-8", laparams=LAParams(), imagewriter=iw)
            interp = PDFPageInterpreter(rm, dev)
            for page in PDFPage.get_pages(io.BytesIO(d)):
                interp.process_page(page)
            dev.close()

        try:
            run_doc(sibling, io.BytesIO())
        except Exception:
            pass
        seams.FSMON.start()
        try:
            run_doc(data, out)
        except Exception as e:
            err = "%s@%s: %r" % (type(e).__name__, where(e), e)
        ev = seams.FSMON.stop()
        return {"events": [list(map(str, e)) for e in ev], "err": err, "out": out.getvalue().decode("utf-8", "replace")}
    seams.FSMON.start()
    try:
        HL.extract_text_to_fp(io.BytesIO(data), out, output_type=mode, codec="utf-8", output_dir=outdir)
    except Exception as e:
        err = "%s@%s: %r" % (type(e).__name__, where(e), e)
    ev = seams.FSMON.stop()
    return {"events": [list(map(str, e)) for e in ev], "err": err, "out": out.getvalue().decode("utf-8", "replace")}


def run(tape, ctx, item=None):
    # the library's strict setting is a knob of the run: well-formed input reads the same under it
    if tape.coin(8, 100, "knob.strict"):
        from pdfminer import settings as _settings

        ctx.probe("run under settings.STRICT")
        _settings.STRICT = True
        try:
            out = run_inner(tape, ctx, item)
        finally:
            _settings.STRICT = False
        for d in out.devs:
            d.msg = "under settings.STRICT: " + d.msg
        return out
    return run_inner(tape, ctx, item)


def run_inner(tape, ctx, item=None):
    t = tape
    devs = []
    images = []
    for i in range(t.rint(1, 4, "nimg")):
        for _ in range(20):
            im = gen_image(t, ctx, i)
            if not im["inline"] or (inline_ok_a85(im["data"]) if im["chain"][:1] == ["ASCII85Decode"] else inline_ok(im["data"])):
                break
        else:
            im["inline"] = False
        images.append(im)
    twins = [im for im in images if im["inline"] and im["kind"] == "gray8" and im["w"] != im["h"]]
    if twins and len(images) < 4 and t.coin(40, 100, "img.twin"):
        # a second inline image with the very same data bytes but the other geometry (w x h -> h x w): a different
        # image, which needs a file of its own
        im = dict(t.pick(twins, "img.twin.of"))
        im["w"], im["h"] = im["h"], im["w"]
        im["rowlen"] = im["w"]
        images.append(im)
        ctx.probe("two inline images with the same data bytes")
    for im in images:
        if not im["inline"] and t.coin(20, 100, "img.twice"):
            im["twice"] = True
            ctx.probe("same XObject drawn twice")
        if t.coin(20, 100, "img.notext"):
            im["notext"] = True
    shown = []
    for im in images:
        shown.append(im)
        if im.get("twice"):
            shown.append(im)
    page_of = [0] + [t.draw(2, "page.of") for _ in images[1:]]
    if 1 in page_of:
        page_of = [p if 0 in page_of else 0 for p in page_of]
    page_of = sorted(page_of)
    geom = (0, 0, 0)
    if t.coin(30, 100, "geom"):
        # the page need not start at the origin nor be upright: images are images wherever they are painted
        geom = (t.pick([0, 300, -200, 1000], "geom.ox"), t.pick([0, 300, -100, 2000], "geom.oy"), t.pick([0, 90, 180, 270], "geom.rot"))
        ctx.probe("page with shifted MediaBox or /Rotate")
    data, marks, names = build_document(t, ctx, images, page_of, geom=geom)
    # ---------------------------------------------------------------- reading under chunk schedules
    scen = []
    glyphs_ref = None
    if any(im["inline"] for im in images):
        plain, _, _ = build_document(core_null_tape(), ctx_null(), images, page_of, with_images=False, geom=geom)
        try:
            pg = list(HL.extract_pages(io.BytesIO(plain), laparams=None))
            glyphs_ref = [(c.get_text(), tuple(c.matrix)) for p_ in pg for c in items_of(p_, L.LTChar)]
        except Exception as e:
            raise core.HarnessError("image-free document does not extract: %r" % (e,))
    for k in range(3):
        if k == 0:
            pol, pdesc = None, "default"
        elif k == 1 and marks:
            chosen = sorted({t.pick(marks, "cut") for _ in range(t.rint(1, 5, "ncuts"))})
            pol, pdesc = seams.placed_chunks(chosen, t.pick([4096, 64, 7, 1], "fb")), "placed:%s" % chosen
            ctx.probe("boundary placed in inline markers")
        else:
            pol, pdesc = seams.draw_chunk_policy(t, marks or None, allow_default=False)
        ctx.seam("chunk")
        seams.CHUNK.policy = pol
        try:
            pages = list(HL.extract_pages(io.BytesIO(data), laparams=None))
        except Exception as e:
            devs.append(Dev("C18:read:raise:%s@%s" % (type(e).__name__, where(e)), "%r; chunk=%s" % (e, pdesc)))
            continue
        finally:
            seams.CHUNK.policy = None
        cfg = "chunk=%s images=%s" % (pdesc, [(im["kind"], "inline" if im["inline"] else "xobject", im["w"], im["h"], im["chain"]) for im in images])
        scen.append(pdesc)
        got = [x for p_ in pages for x in items_of(p_, L.LTImage)]
        if len(got) != len(shown):
            devs.append(Dev("C18:image-count", "%d LTImage items, document shows %d images; %s" % (len(got), len(shown), cfg)))
        else:
            for i, (im, lt) in enumerate(zip(shown, got)):
                tag = "inline" if im["inline"] else "xobject"
                try:
                    d = lt.stream.get_data()
                except Exception as e:
                    devs.append(Dev("C18:%s:get_data:raise:%s" % (tag, type(e).__name__), "image %d: %r; %s" % (i, e, cfg)))
                    continue
                if d != im["samples"]:
                    devs.append(Dev("C18:%s:data" % tag, "image %d: %d bytes %r..%r, stored %d bytes %r..%r; %s" % (i, len(d), d[:12], d[-12:], len(im["samples"]), im["samples"][:12], im["samples"][-12:], cfg)))
                if tuple(lt.srcsize) != (im["w"], im["h"]) or lt.bits != im["bits"]:
                    devs.append(Dev("C18:%s:geometry" % tag, "image %d: srcsize %r bits %r, stored %dx%d/%d; %s" % (i, lt.srcsize, lt.bits, im["w"], im["h"], im["bits"], cfg)))
                csn = [getattr(c, "name", c) for c in lt.colorspace]
                if csn not in (([im["cs"]], [ABBR_CS[im["cs"]]]) if not im.get("mask") else ([None],)):
                    devs.append(Dev("C18:%s:colorspace" % tag, "image %d: colorspace %r, stored %s; %s" % (i, lt.colorspace, im["cs"], cfg)))
        glyphs = [(c.get_text(), tuple(c.matrix)) for p_ in pages for c in items_of(p_, L.LTChar)]
        if glyphs_ref is not None and glyphs != glyphs_ref:
            devs.append(Dev("C18:glyphs-after-inline-image", "glyphs %r, without the images %r; %s" % ("".join(g[0] for g in glyphs), "".join(g[0] for g in glyphs_ref), cfg)))
    # ---------------------------------------------------------------- export
    sc = Scratch("verif-c18-")
    try:
        st = t.pick(["present", "absent"], "out.state")
        outdir = os.path.join(sc.top, "out")
        pre = {}
        if st == "present":
            sc.makedirs("out")
            for i, nm in enumerate(names):
                if nm is not None and t.coin(40, 100, "pre"):
                    ext = ".jpg" if images[i]["kind"] == "dct" else ".bmp"
                    for suffix in t.pick([("",), ("", ".0"), ("", ".1"), ("", ".0", ".2"), (".0",)], "pre.set"):
                        p = sc.write(os.path.join("out", nm + suffix + ext), b"pre-existing")
                        pre[p] = b"pre-existing"
                        ctx.probe("preexisting export name")
        if len([n for n in names if n is not None]) != len({n for n in names if n is not None}):
            ctx.probe("two images same name")
        mode = t.pick(["text", "xml"], "out.mode")
        sibling = None
        if t.coin(20, 100, "shared.writer"):
            ctx.probe("one ImageWriter for two documents")
            other = []
            for im in images:
                o = dict(im)
                if im["kind"] == "dct":
                    o.update(kind="gray8", bits=8, cs="DeviceGray", w=2, h=2, rowlen=2, samples=b"\x10\x20\x30\x40", data=b"\x10\x20\x30\x40", chain=[])
                else:
                    blob = b"\xff\xd8\xff\xe0sibling\xff\xd9"
                    o.update(kind="dct", bits=8, cs="DeviceRGB", samples=blob, data=blob, chain=["DCTDecode"])
                other.append(o)
            sibling = build_document(core_null_tape(), ctx_null(), other, page_of, geom=geom)[0]
        res = core.fork_call(lambda: export_child(data, outdir, mode, sibling), timeout=60)
        if "error" in res:
            raise core.HarnessError("C18 export child failed: %s" % res["error"])
        cfg = "export mode=%s outdir=%s%s images=%s" % (mode, st, " writer-shared-with-a-sibling-document" if sibling is not None else "", [(im["kind"], "inline" if im["inline"] else "xobject", im["w"], im["h"], im["chain"]) for im in images])
        if res["err"]:
            devs.append(Dev("C18:export:raise:%s" % res["err"].split(":")[0], "%s; %s" % (res["err"].replace(sc.top, "<SCRATCH>"), cfg)))
        writes = [e[1] for e in res["events"] if e[0] == "open" and any(c in e[2] for c in "wax+")]
        for p in set(writes):
            if writes.count(p) > 1:
                devs.append(Dev("C18:export:file-written-twice", "%s opened for writing %d times; %s" % (os.path.basename(p), writes.count(p), cfg)))
            if os.path.realpath(p) in pre:
                devs.append(Dev("C18:export:overwrote-existing", "%s existed before; %s" % (os.path.basename(p), cfg)))
        for p, content in pre.items():
            with open(p, "rb") as f:
                if f.read() != content:
                    devs.append(Dev("C18:export:overwrote-existing", "%s changed; %s" % (os.path.basename(p), cfg)))
        if not res["err"]:
            new = sorted(os.path.realpath(p) for p in set(writes))
            if len(new) != len(shown):
                devs.append(Dev("C18:export:file-count", "%d files written (%s) for %d images shown; %s" % (len(new), [os.path.basename(p) for p in new], len(shown), cfg)))
            else:
                # files are written in showing order
                order = []
                for p in writes:
                    rp = os.path.realpath(p)
                    if rp not in order:
                        order.append(rp)
                if mode == "xml":
                    # the name the converter reports for an image is the name of the file that holds it
                    import html as _html

                    srcs = [_html.unescape(m) for m in re.findall(r'<image src="([^"]*)"', res["out"])]
                    if srcs != [os.path.basename(p) for p in order]:
                        devs.append(Dev("C18:export:reported-name", "the XML names the image files %r, the files written are %r (in showing order); %s" % (srcs, [os.path.basename(p) for p in order], cfg)))
                    ctx.probe("file names reported in the XML compared with the files written")
                for i, (im, p) in enumerate(zip(shown, order)):
                    sc.check(p)
                    with open(p, "rb") as f:
                        blob = f.read()
                    if im["kind"] == "dct":
                        ctx.probe("jpg exported")
                        if not p.endswith(".jpg") or blob != im["samples"]:
                            devs.append(Dev("C18:export:jpeg-not-identical", "image %d -> %s: %d bytes, stored %d; %s" % (i, os.path.basename(p), len(blob), len(im["samples"]), cfg)))
                        continue
                    ctx.probe("bmp exported")
                    if not p.endswith(".bmp"):
                        devs.append(Dev("C18:export:format", "image %d (%s) exported as %s; %s" % (i, im["kind"], os.path.basename(p), cfg)))
                        continue
                    try:
                        w, h, bpp, rows = read_bmp(blob)
                    except Exception as e:
                        devs.append(Dev("C18:export:bmp-unreadable", "image %d (%s %dx%d) -> %s: %s; %s" % (i, im["kind"], im["w"], im["h"], os.path.basename(p), e, cfg)))
                        continue
                    want_rows = [im["samples"][r * im["rowlen"] : (r + 1) * im["rowlen"]] for r in range(im["h"])]
                    want_bpp = {"gray8": 8, "rgb8": 24, "1bit": 1}[im["kind"]]
                    if (w, h, bpp) != (im["w"], im["h"], want_bpp):
                        devs.append(Dev("C18:export:bmp-geometry", "image %d: BMP is %dx%d/%d, stored %dx%d/%d; %s" % (i, w, h, bpp, im["w"], im["h"], want_bpp, cfg)))
                    elif im["kind"] == "1bit":
                        mask = (0xFF << ((8 - im["w"] % 8) % 8)) & 0xFF
                        a = [r[:-1] + bytes((r[-1] & mask,)) for r in rows]
                        b = [r[:-1] + bytes((r[-1] & mask,)) for r in want_rows]
                        if a != b:
                            devs.append(Dev("C18:export:bmp-samples", "image %d (1-bit %dx%d): rows %r, stored %r; %s" % (i, im["w"], im["h"], a[:2], b[:2], cfg)))
                    elif rows != want_rows:
                        devs.append(Dev("C18:export:bmp-samples", "image %d (%s %dx%d): first row %r, stored %r; %s" % (i, im["kind"], im["w"], im["h"], rows[0][:12], want_rows[0][:12], cfg)))
        scen.append((st, mode, sorted(os.path.basename(p) for p in pre)))
    finally:
        sc.cleanup()
    seen = {}
    for d in devs:
        seen.setdefault(d.sig, d)
    tape.note(scen)
    tape.note(len(data))
    nontrivial = any(im["inline"] for im in images) or any(im["kind"] != "dct" and im["rowlen"] % 4 for im in images)
    sample = {"images": [{"kind": im["kind"], "inline": im["inline"], "w": im["w"], "h": im["h"], "chain": im["chain"], "stored_bytes": len(im["data"])} for im in images], "schedules": [s for s in scen if isinstance(s, str)], "export": repr(scen[-1]) if scen else None}
    return Outcome(list(seen.values()), scen=repr((data, scen)), nontrivial=nontrivial, sample=sample)


class _NullTape:
    """A tape that always answers 0 (used to rebuild the image-free variant without drawing)."""

    def draw(self, n, label=""):
        return 0

    def coin(self, *a, **k):
        return False

    def pick(self, seq, label=""):
        return seq[0]

    def rint(self, lo, hi, label=""):
        return lo


class _NullCtx:
    def probe(self, *a, **k):
        pass


def core_null_tape():
    return _NullTape()


def ctx_null():
    return _NullCtx()


def jobs(tier, seed):
    import checks.c18 as me

    return core.std_jobs(me, tier, seed)
