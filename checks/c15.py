"""C15 - filesystem confinement (DESIGN 5/C15).

Workload : documents whose /Encoding names, /CMapName, usecmap operands, Registry/Ordering strings and XObject
           (image) names range over hostile strings (dot-dot chains, absolute paths inside the scratch area,
           separators, NUL, '.'/'..', 300-byte names, names equal to existing files).
Schedule : the simulated file-system state per run - output directory absent / present / nested; files
           pre-existing under the names the writer will want; bait files (a harmless pickle and plain files) at
           every location a traversal of a generated name would resolve to; CMAP_PATH pinned into the scratch
           area.  Each run executes in a forked child whose cwd is inside the scratch area, under the audit monitor.
Oracle   : every read-open resolves into pdfminer/cmap or CMAP_PATH; every create/write-open resolves into the
           chosen output directory and names a path that did not exist before; afterwards every pre-existing
           file is unchanged and no new file exists outside the output directory.

Safety of the harness itself: every path the harness creates or removes goes through _guard(), which refuses
anything that does not resolve inside the run's own temporary directory (an earlier version of this engine let a
variable holding a document-derived name shadow the scratch path and removed the wrong directory).
"""
import gzip
import hashlib
import io
import os
import pickle
import shutil
import tempfile

from sim import core, docs, seams
from sim.core import Dev, Outcome
from sim.oracle import where
from sim.pdfwriter import Name, Ref, Ser, Str

ID = "C15"
LEVEL = "exploration"
RULE = (
    "a case = one document with 1..3 hostile names injected at tape-chosen sites (font Encoding name, CMapName of an "
    "Encoding stream, usecmap operand of an embedded CMap, CIDSystemInfo Registry/Ordering, image XObject names) "
    "processed by extract_text_to_fp(output_dir=...) in a tape-chosen scratch file-system state with bait files at "
    "every traversal target, in a forked child under the audit hook. distinct = distinct (document bytes, FS state); "
    "non-trivial = at least one generated name contains a path separator, a dot-dot component or collides with an "
    "existing file."
)
COMPONENTS_REAL = ["pdfminer.cmapdb.CMapDB._load_data / CMapParser (usecmap)", "pdfminer.pdffont.PDFCIDFont", "pdfminer.image.ImageWriter", "pdfminer.converter / high_level.extract_text_to_fp"]
COMPONENTS_STUB = ["scratch directory tree with bait files (simulated FS state)", "sys.addaudithook monitor (open, os.mkdir, os.rename, os.remove, ...)", "forked child per run with cwd inside the scratch area and CMAP_PATH pinned"]
ASSUMPTIONS = [
    "'opens' = audit events that open, create, rename or remove a path; stat calls are not opens; opens by the import system are the interpreter's",
    "hostile absolute paths and traversals stay inside the scratch area (the harness must not touch the real file system)",
    "allowed resource directories: <repo>/pdfminer/cmap and the directory named by CMAP_PATH",
]
PROBES = ["LTImage objects of one layout exported by two writers", "site:encoding-name", "site:cmapname-stream", "site:usecmap", "site:registry-ordering", "site:image-name", "site:image-attr", "site:image-colourspace-name", "name:dotdot", "name:absolute", "name:nul", "name:long", "name:existing-file", "name:separator", "name:sibling-prefix", "name:lookalike", "state:CMAP_PATH unset", "image:oversize", "state:long run of occupied names", "state:outdir-absent", "state:outdir-nested", "state:preexisting-image-name", "second export in the same process", "image exported", "bait file present at traversal target"]
TIERS = {
    "quick": {"batches": 16, "runs": 500, "budget_s": 120},
    "thorough": {"batches": 128, "runs": 500, "budget_s": 900},
}
DETERMINISM_SLICE = 4
_ready = False
SCRATCH_PREFIX = "verif-c15-"


def setup():
    global _ready, HL, CMAPDIR
    if _ready:
        return
    core.import_sut()
    import pdfminer
    import pdfminer.high_level as HL

    CMAPDIR = os.path.realpath(os.path.join(os.path.dirname(pdfminer.__file__), "cmap"))
    seams.FSMON.install()
    _ready = True


BAIT_PICKLE = gzip.compress(pickle.dumps({"IS_VERTICAL": False, "CODE2CID": {}, "CID2UNICHR_H": {}, "CID2UNICHR_V": {}}), mtime=0)


def _guard(scratch_top, path):
    """Refuse to touch anything outside this run's own temporary directory."""
    top = os.path.realpath(scratch_top)
    tmp = os.path.realpath(os.environ.get("VERIF_SCRATCH") or tempfile.gettempdir())
    if not (os.path.isabs(top) and os.path.dirname(top) == tmp and os.path.basename(top).startswith(SCRATCH_PREFIX)):
        raise core.HarnessError("C15 scratch directory is not what it should be: %r" % (scratch_top,))
    real = os.path.realpath(path)
    if real != top and not real.startswith(top + os.sep):
        raise core.HarnessError("C15 harness refused to touch %r (outside %r)" % (path, top))
    return real


def hostile_name(t, ctx, fsroot, depth_hint):
    k = t.draw(12, "name.kind")
    if k == 11:
        # spellings that only become a traversal after some normalisation or decoding step (compatibility forms of
        # '.' and '/', percent escapes, overlong UTF-8): harmless as long as the name is used as it is
        ctx.probe("name:lookalike")
        up = t.rint(1, depth_hint + 1, "name.up3")
        fw = "\uff0e\uff0e\uff0f".encode("utf-8")  # FULLWIDTH FULL STOP x2, FULLWIDTH SOLIDUS (NFKC: '../')
        return t.pick(
            [
                fw * up + "bait\uff0fevil".encode("utf-8"),
                "\u2025\uff0f".encode("utf-8") * up + b"bait" + "\uff0f".encode("utf-8") + b"evil",  # TWO DOT LEADER (NFKC: '..')
                "\u2024\u2024\u2215".encode("utf-8") * up + b"bait/evil",
                b"%2e%2e%2f" * up + b"bait%2fevil",
                b"\xc0\xae\xc0\xae\xc0\xaf" * up + b"bait\xc0\xafevil",
                "\uff0f".encode("utf-8") + fsroot.encode().lstrip(b"/").replace(b"/", "\uff0f".encode("utf-8")) + "\uff0fbait\uff0fevil".encode("utf-8"),
            ],
            "name.lookalike",
        )
    if k == 10:
        # a sibling directory whose path merely *begins* like an allowed directory (defeats string-prefix checks)
        ctx.probe("name:sibling-prefix")
        return t.pick([b"../er2/evil", b"../er-private/evil", b"../out2/evil", b"../b2/evil", b"../out-old/evil"], "name.sibling")
    if k == 0:
        ctx.probe("name:dotdot")
        return b"../" * t.rint(1, depth_hint + 1, "name.up") + t.pick([b"bait/evil", b"evil", b"bait/x y", b"bait/evil-V", b"bait/evil-H"], "name.tail")
    if k == 1:
        ctx.probe("name:absolute")
        return fsroot.encode() + t.pick([b"/bait/abs_evil", b"/abs_evil", b"/out/../bait/abs2"], "name.abs")
    if k == 2:
        ctx.probe("name:nul")
        return b"ev\x00il" if t.coin(50) else b"..\x00/..\x00/bait/evil"
    if k == 3:
        ctx.probe("name:long")
        return b"L" * 300
    if k == 4:
        ctx.probe("name:separator")
        return t.pick([b"sub/dir/name", b"a\\b", b"./x", b"sub/../../bait/evil", b"..", b".", b"", b"x/"], "name.sep")
    if k == 5:
        ctx.probe("name:dotdot")
        return b"x/../../" + b"../" * t.rint(0, depth_hint, "name.up2") + b"bait/evil"
    if k == 6:
        ctx.probe("name:existing-file")
        return b"existing"
    if k == 7:
        return t.pick([b"CON", b"nul", b"Im1", b"Identity-H", b"H", b"EUC-H", b"inline-00000000", b"inline-existing"], "name.plain")
    if k == 8:
        ctx.probe("name:dotdot")
        return b"..\\..\\bait\\evil" if t.coin(30) else b"....//....//bait/evil"
    ctx.probe("name:absolute")
    return b"/" + fsroot.encode().lstrip(b"/") + b"/bait/evil"


def pdf_name(nm):
    s = Ser()
    s.name(Name(nm))
    return bytes(s.out)


def build_document(t, ctx, fsroot):
    objects = {}
    nxt = [3]

    def alloc(v):
        nxt[0] += 1
        objects[nxt[0]] = v
        return Ref(nxt[0], 0)

    names = []
    fonts = {}
    xobjs = {}
    content = []
    fd = alloc({b"Type": Name(b"FontDescriptor"), b"FontName": Name(b"F"), b"Flags": 4, b"FontBBox": [0, -200, 1000, 800], b"ItalicAngle": 0, b"Ascent": 800, b"Descent": -200, b"CapHeight": 700, b"StemV": 80})
    nsites = t.rint(1, 3, "nsites")
    for i in range(nsites):
        site = t.pick(["encoding-name", "cmapname-stream", "usecmap", "registry-ordering", "image-name", "image-name", "image-attr"], "site")
        ctx.probe("site:" + site)
        nm = hostile_name(t, ctx, fsroot, 4)
        names.append((site, nm))
        fname = b"F%d" % i
        cidinfo = {b"Registry": Str(b"Adobe"), b"Ordering": Str(b"Identity"), b"Supplement": 0}
        enc = Name(b"Identity-H")
        tounicode = None
        if site == "encoding-name":
            enc = Name(nm)
        elif site == "cmapname-stream":
            enc = alloc(docs.content_stream(b"begincmap endcmap", extra={b"Type": Name(b"CMap"), b"CMapName": Name(nm)}))
        elif site == "usecmap":
            body = b"/CIDInit /ProcSet findresource begin 12 dict begin begincmap\n" + pdf_name(nm) + b" usecmap\n1 begincodespacerange <00> <FF> endcodespacerange\n1 beginbfchar <41> <0041> endbfchar\nendcmap end end\n"
            tounicode = alloc(docs.content_stream(body))
        elif site == "registry-ordering":
            if t.coin(50, 100, "ro.which"):
                cidinfo[b"Registry"] = Str(nm)
            else:
                cidinfo[b"Ordering"] = Str(nm)
        if site == "image-attr":
            # document-controlled strings other than the name that end up in the file name of a raw export
            iname = t.pick([b".", b"..", b"x", b"a/b", b""], "attr.imgname")
            w, h = 2, 2
            if t.coin(50, 100, "attr.which"):
                img = docs.content_stream(b"00000000>", extra={b"Type": Name(b"XObject"), b"Subtype": Name(b"Image"), b"Width": w, b"Height": h, b"BitsPerComponent": Name(nm), b"ColorSpace": Name(b"DeviceGray"), b"Filter": [Name(b"ASCIIHexDecode")]})
            else:
                # the colour space name (a name of the document's choosing when it refers to a resource) of an image that is
                # dumped raw; also with a leading separator, as the second half of a traversal the image name begins
                cs = t.pick([nm, b"/" + nm, b"/x", b"/../x", b"/../bait/evil"], "attr.csname")
                img = docs.content_stream(b"00000000>", extra={b"Type": Name(b"XObject"), b"Subtype": Name(b"Image"), b"Width": w, b"Height": h, b"BitsPerComponent": 8, b"ColorSpace": Name(cs), b"Filter": [Name(b"ASCIIHexDecode")]})
                ctx.probe("site:image-colourspace-name")
            xobjs[iname + b"%d" % i if iname in xobjs else iname] = alloc(img)
            content.append(b"q 10 0 0 10 %d 200 cm " % (20 * i) + pdf_name(iname) + b" Do Q")
            continue
        if site != "image-name":
            desc = alloc({b"Type": Name(b"Font"), b"Subtype": Name(b"CIDFontType2"), b"BaseFont": Name(b"F"), b"CIDSystemInfo": cidinfo, b"FontDescriptor": fd, b"DW": 500})
            f = {b"Type": Name(b"Font"), b"Subtype": Name(b"Type0"), b"BaseFont": Name(b"F"), b"Encoding": enc, b"DescendantFonts": [desc]}
            if tounicode is not None:
                f[b"ToUnicode"] = tounicode
            fonts[fname] = alloc(f)
            content.append(b"BT /" + fname + b" 10 Tf 10 %d Td <00410042> Tj ET" % (700 - 20 * i))
        else:
            kind = t.pick(["gray", "rgb", "jpeg", "raw", "1bit"], "img.kind")
            w, h = t.rint(1, 5, "img.w"), t.rint(1, 4, "img.h")
            if t.coin(8, 100, "img.oversize"):
                # a declared size no export format can hold (the export fails): failing must not touch anything either
                w, h = t.pick([(70000, 70000), (2**31, 1), (1, 2**31), (2**31 - 1, 3)], "img.oversize.wh")
                kind = t.pick(["gray", "rgb", "1bit"], "img.oversize.kind")
                ctx.probe("image:oversize")
            common = {b"Type": Name(b"XObject"), b"Subtype": Name(b"Image"), b"Width": w, b"Height": h}
            if kind == "gray":
                img = docs.content_stream(bytes(range(min(w * h, 20))), flate=True, extra={**common, **{b"BitsPerComponent": 8, b"ColorSpace": Name(b"DeviceGray")}})
            elif kind == "rgb":
                img = docs.content_stream(bytes(range(min(w * h * 3, 60))), flate=True, extra={**common, **{b"BitsPerComponent": 8, b"ColorSpace": Name(b"DeviceRGB")}})
            elif kind == "jpeg":
                img = docs.content_stream(b"\xff\xd8\xff\xe0fakejpeg\xff\xd9", extra={**common, **{b"BitsPerComponent": 8, b"ColorSpace": Name(b"DeviceRGB"), b"Filter": Name(b"DCTDecode")}})
            elif kind == "1bit":
                img = docs.content_stream(bytes(min(((w + 7) // 8) * h, 32)), flate=True, extra={**common, **{b"BitsPerComponent": 1, b"ColorSpace": Name(b"DeviceGray")}})
            else:
                img = docs.content_stream(bytes(range(w * h * 2)).hex().encode() + b">", extra={**common, **{b"BitsPerComponent": 16, b"ColorSpace": Name(b"DeviceGray"), b"Filter": [Name(b"ASCIIHexDecode")]}})
            xobjs[nm] = alloc(img)
            content.append(b"q 10 0 0 10 %d 100 cm " % (20 * i) + pdf_name(nm) + b" Do Q")
    res = {}
    if fonts:
        res[b"Font"] = fonts
    if xobjs:
        res[b"XObject"] = xobjs
    c = alloc(docs.content_stream(b"\n".join(content)))
    objects[1] = {b"Type": Name(b"Catalog"), b"Pages": Ref(2, 0)}
    objects[2] = {b"Type": Name(b"Pages"), b"Kids": [Ref(3, 0)], b"Count": 1}
    objects[3] = {b"Type": Name(b"Page"), b"Parent": Ref(2, 0), b"MediaBox": [0, 0, 612, 792], b"Contents": c, b"Resources": res}
    return docs.build_pdf(objects, 1).getvalue(), names


def snapshot(top):
    snap = {}
    for dp, dn, fn in os.walk(top):
        for f in fn:
            p = os.path.join(dp, f)
            try:
                if os.path.islink(p):
                    snap[p] = "link:" + os.readlink(p)
                else:
                    with open(p, "rb") as fh:
                        snap[p] = hashlib.sha1(fh.read()).hexdigest()
            except OSError as e:
                snap[p] = "err:%r" % (e,)
    return snap


def candidate_targets(scratch_top, sim_cmap_dir, outdir, names):
    """Every path a naive join of a generated name with the *simulated* directories would resolve to.

    Only the directories inside the scratch area are considered: the repository's own cmap directory is never a
    place where the harness creates anything."""
    out = set()
    for site, nm in names:
        s = nm.replace(b"\x00", b"").decode("latin-1")
        for v in (s, s.replace("\\", "/")):
            if site == "image-attr":
                continue
            if site == "image-name":
                for ext in (".bmp", ".jpg", ".img", ".0.bmp", ".0.jpg"):
                    out.add(os.path.normpath(os.path.join(outdir, v + ext)))
            else:
                twins = [v] + ([v[:-2] + "-H"] if v.endswith("-V") else []) + ([v[:-2] + "-V"] if v.endswith("-H") else [])
                for w in twins:  # (a vertical CMap has a horizontal twin and the other way round)
                    for fn in ("%s.pickle.gz" % w, "to-unicode-%s-Identity.pickle.gz" % w, "to-unicode-Adobe-%s.pickle.gz" % w):
                        out.add(os.path.normpath(os.path.join(sim_cmap_dir, fn)))
    top = os.path.realpath(scratch_top)
    return sorted(p for p in out if os.path.isabs(p) and p.startswith(top + os.sep))


def child(data, fsroot, sim_cmap_dir, outdir, mode, twice, scratch_top, cmap_env=True):
    """Runs in the forked child: returns the audit events and the exception class, if any.

    twice: export a second time in the same process; between the two exports files appear in the output directory
    under the names the second export would choose next (somebody else wrote them)."""
    os.chdir(os.path.join(fsroot, "work"))
    if cmap_env:
        os.environ["CMAP_PATH"] = sim_cmap_dir
    else:
        os.environ.pop("CMAP_PATH", None)  # the default configuration: no extra CMap directory
    seams.FSMON.start()
    err = None
    try:
        out = io.BytesIO()
        HL.extract_text_to_fp(io.BytesIO(data), out, output_type=mode, codec="utf-8", output_dir=outdir)
    except Exception as e:
        err = "%s@%s: %r" % (type(e).__name__, where(e), e)
    events = seams.FSMON.stop()
    res = {"events": [list(map(str, e)) for e in events], "err": err, "events2": [], "sentinels": [], "existing2": []}
    if twice and os.path.isdir(outdir):
        sentinels = []
        for fn in sorted(os.listdir(outdir)):
            stem, ext = os.path.splitext(fn)
            for k in (0, 1):
                p = os.path.join(outdir, "%s.%d%s" % (stem, k, ext))
                if not os.path.exists(p) and len(os.path.basename(p)) < 200:
                    with open(_guard(scratch_top, p), "wb") as f:
                        f.write(b"written by somebody else between two exports")
                    sentinels.append(p)
        res["sentinels"] = sentinels
        res["existing2"] = [os.path.join(outdir, fn) for fn in os.listdir(outdir)]
        seams.FSMON.start()
        try:
            HL.extract_text_to_fp(io.BytesIO(data), io.BytesIO(), output_type=mode, codec="utf-8", output_dir=outdir)
        except Exception as e:
            res["err2"] = "%s@%s: %r" % (type(e).__name__, where(e), e)
        res["events2"] = [list(map(str, e)) for e in seams.FSMON.stop()]
    res["phases"] = []
    if twice and os.path.isdir(outdir):
        # the layout computed once, its LTImage objects exported by two writers in turn (the second into a directory of its
        # own): each writer keeps to its directory and to names that are free when it comes to them
        from pdfminer.image import ImageWriter
        from pdfminer.layout import LTContainer, LTImage

        try:
            pages = list(HL.extract_pages(io.BytesIO(data)))
        except Exception:
            pages = []
        imgs = []

        def walk(x):
            if isinstance(x, LTImage):
                imgs.append(x)
            if isinstance(x, LTContainer):
                for c in x:
                    walk(c)

        for pg in pages:
            walk(pg)
        for d in (outdir, os.path.join(outdir, "again")):
            existing = [os.path.join(r, fn) for r, _, fns in os.walk(outdir) for fn in fns]
            seams.FSMON.start()
            try:
                iw = ImageWriter(d)
                for im in imgs:
                    try:
                        iw.export_image(im)
                    except Exception:
                        pass
            except Exception:
                pass
            res["phases"].append({"dir": d, "existing": existing, "events": [list(map(str, e)) for e in seams.FSMON.stop()]})
    return res


def run(tape, ctx, item=None):
    t = tape
    devs = []
    scratch_top = os.path.realpath(tempfile.mkdtemp(prefix=SCRATCH_PREFIX, dir=os.environ.get("VERIF_SCRATCH")))
    _guard(scratch_top, scratch_top)
    try:
        # the simulated file system lives eight levels below the temporary directory, so that every dot-dot chain
        # the generator can produce (at most six levels up) still resolves inside the scratch area
        fsroot = os.path.join(scratch_top, "l1", "l2", "l3", "l4", "l5", "l6", "l7", "l8")
        sim_cmap_dir = os.path.join(fsroot, "cmaps", "deep", "er")
        for d in (sim_cmap_dir, os.path.join(fsroot, "work"), os.path.join(fsroot, "bait")):
            os.makedirs(_guard(scratch_top, d))
        st = t.pick(["present", "absent", "nested"], "state.outdir")
        outdir = os.path.join(fsroot, "out") if st != "nested" else os.path.join(fsroot, "out", "a", "b")
        if st == "present":
            os.makedirs(_guard(scratch_top, outdir))
        else:
            ctx.probe("state:outdir-" + st)
        data, names = build_document(t, ctx, fsroot)
        # pre-existing files: names the writer will want, and 'existing' resources
        pre = []
        if st == "present":
            for site, nm in names:
                if site == "image-name" and t.coin(50, 100, "state.preexist"):
                    flat = nm.replace(b"\x00", b"").decode("latin-1").replace("/", "_")
                    for ext in (".bmp", ".jpg", ".0.bmp", ".1.bmp", ".2.bmp", ".1.jpg"):
                        if t.coin(50, 100, "state.preexist.ext"):
                            p = os.path.normpath(os.path.join(outdir, os.path.basename(flat) + ext))
                            if p.startswith(outdir + os.sep):
                                pre.append(p)
                                ctx.probe("state:preexisting-image-name")
            for site, nm in names:
                if site == "image-name" and len(nm) > 200:
                    flat = nm.replace(b"\x00", b"").decode("latin-1").replace("/", "_")
                    for ext in (".bmp", ".jpg"):
                        for cut in (255, 255 - len(ext), 250, 200):
                            pre.append(os.path.join(outdir, flat[:cut] + ("" if cut == 255 else ext)))
                    ctx.probe("state:preexisting-image-name")
            pre.append(os.path.join(outdir, "existing.bmp"))
            pre.append(os.path.join(outdir, "existing.jpg"))
            if t.coin(3, 100, "state.longrun"):
                # a long unbroken run of occupied candidate names: the search for a free one has to go all the way
                run_n = t.pick([10, 100, 257, 1000, 1024, 1100], "state.longrun.n")
                for site, nm in names:
                    if site == "image-name" and len(nm) < 100:
                        flat = os.path.basename(nm.replace(b"\x00", b"_").decode("latin-1").replace("/", "_").replace("\\", "_"))
                        for ext in (".bmp", ".jpg"):
                            pre.append(os.path.join(outdir, flat + ext))
                            pre.extend(os.path.join(outdir, "%s.%d%s" % (flat, k, ext)) for k in range(run_n))
                        ctx.probe("state:long run of occupied names")
                        break
        pre.append(os.path.join(sim_cmap_dir, "existing.pickle.gz"))
        for p in list(pre):
            try:
                os.makedirs(_guard(scratch_top, os.path.dirname(p)), exist_ok=True)
                with open(_guard(scratch_top, p), "wb") as f:
                    # (some of them empty: a zero-length file is a file like any other)
                    f.write(BAIT_PICKLE if p.endswith(".gz") else b"" if t.coin(30, 100, "state.preexist.empty") else b"pre-existing content of " + os.path.basename(p).encode()[:40])
            except OSError:
                pre.remove(p)  # e.g. a 300-byte name: the file system cannot hold it
        # intermediate directories that make traversals resolvable, and bait files at their targets
        for site, nm in names:
            s = nm.replace(b"\x00", b"").decode("latin-1")
            first = s.split("/")[0]
            if site != "image-name" and first not in ("", ".", "..") and "/" in s and not s.startswith("/"):
                for pref in ("", "to-unicode-", "to-unicode-Adobe-"):
                    try:
                        os.makedirs(_guard(scratch_top, os.path.join(sim_cmap_dir, pref + first)), exist_ok=True)
                    except OSError:
                        pass
        nbait = 0
        for p in candidate_targets(scratch_top, sim_cmap_dir, outdir, names):
            inside_out = p.startswith(os.path.join(fsroot, "out") + os.sep)
            if os.path.exists(p) or (inside_out and st != "present"):
                continue
            if inside_out and os.path.dirname(p) == outdir:
                continue  # the writer may legitimately create this name
            try:
                os.makedirs(_guard(scratch_top, os.path.dirname(p)), exist_ok=True)
                with open(_guard(scratch_top, p), "wb") as f:
                    f.write(BAIT_PICKLE if p.endswith(".gz") else b"bait")
                nbait += 1
            except OSError:
                pass
        # the working directory is not a resource directory either: bait pickles under the plain names lie there, and
        # files called like the images (the output directory is somewhere else)
        for site, nm in names:
            if site == "image-name":
                flat0 = os.path.basename(nm.replace(b"\x00", b"_").decode("latin-1").replace("/", "_").replace("\\", "_"))
                if flat0 and len(flat0) < 100 and flat0 not in (".", ".."):
                    for ext in (".bmp", ".jpg"):
                        try:
                            with open(_guard(scratch_top, os.path.join(fsroot, "work", flat0 + ext)), "wb") as f:
                                f.write(b"a file of the same name in the working directory")
                            nbait += 1
                        except OSError:
                            pass
        for site, nm in names:
            s0 = nm.replace(b"\x00", b"").decode("latin-1")
            if site != "image-name" and s0 and "/" not in s0 and "\\" not in s0 and len(s0) < 100 and s0 not in (".", ".."):
                for fn in ("%s.pickle.gz" % s0, "to-unicode-%s-Identity.pickle.gz" % s0, "to-unicode-Adobe-%s.pickle.gz" % s0, "to-unicode-Adobe-Identity.pickle.gz"):
                    try:
                        with open(_guard(scratch_top, os.path.join(fsroot, "work", fn)), "wb") as f:
                            f.write(BAIT_PICKLE)
                        nbait += 1
                    except OSError:
                        pass
        if nbait:
            ctx.probe("bait file present at traversal target", nbait)
        cmap_env = t.coin(75, 100, "state.cmapenv")
        if not cmap_env:
            ctx.probe("state:CMAP_PATH unset")
        before = snapshot(scratch_top)
        mode = t.pick(["text", "xml", "html"], "mode")
        twice = t.coin(30, 100, "twice")
        if twice:
            ctx.probe("second export in the same process")
        res = core.fork_call(lambda: child(data, fsroot, sim_cmap_dir, outdir, mode, twice, scratch_top, cmap_env), timeout=60)
        if "error" in res:
            raise core.HarnessError("C15 child failed: %s" % res["error"])
        after = snapshot(scratch_top)
        top_b = scratch_top.encode()
        shown = [(sname, nm.replace(top_b, b"<SCRATCH>")) for sname, nm in names]
        cfg = "names=%r outdir=%s(%s) mode=%s%s" % (shown, os.path.relpath(outdir, fsroot), st, mode, "" if cmap_env else " CMAP_PATH=unset")
        allowed_read = (CMAPDIR + os.sep, os.path.realpath(sim_cmap_dir) + os.sep) if cmap_env else (CMAPDIR + os.sep, "/usr/share/pdfminer/")
        out_real = os.path.realpath(outdir)
        for ev in res["events"]:
            if ev[0] == "open":
                path, omode = ev[1], ev[2]
                if path.isdigit():
                    continue  # a file descriptor, not a path
                full = path if os.path.isabs(path) else os.path.join(fsroot, "work", path)
                real = os.path.realpath(full)
                shown_path = path.replace(scratch_top, "<SCRATCH>")
                writing = any(c in omode for c in "wax+")
                if writing:
                    if not real.startswith(out_real + os.sep):
                        devs.append(Dev("C15:write-outside-output-dir", "open(%r, %r) resolves outside the output directory; %s" % (shown_path, omode, cfg)))
                    elif real in before:
                        devs.append(Dev("C15:overwrite-existing-file", "open(%r, %r) on a file that existed before the run; %s" % (shown_path, omode, cfg)))
                    else:
                        ctx.probe("image exported")
                elif not real.startswith(allowed_read):
                    devs.append(Dev("C15:read-outside-resource-dirs", "open(%r, %r) resolves outside the CMap resource directories; %s" % (shown_path, omode, cfg)))
            elif ev[0] == "os.mkdir":
                real = os.path.realpath(ev[1] if os.path.isabs(ev[1]) else os.path.join(fsroot, "work", ev[1]))
                if not (real == out_real or out_real.startswith(real + os.sep) or real.startswith(out_real + os.sep)):
                    devs.append(Dev("C15:mkdir-outside-output-dir", "mkdir(%r); %s" % (ev[1].replace(scratch_top, "<SCRATCH>"), cfg)))
            elif ev[0] in ("os.rename", "os.remove", "os.rmdir", "os.link", "os.symlink", "os.truncate", "shutil.rmtree"):
                devs.append(Dev("C15:%s" % ev[0], "%r; %s" % ([x.replace(scratch_top, "<SCRATCH>") for x in ev], cfg)))
        # second export: nothing that existed when it started may be opened for writing, sentinels stay intact
        for ev in res.get("events2", []):
            if ev[0] == "open" and any(c in ev[2] for c in "wax+") and not ev[1].isdigit():
                real = os.path.realpath(ev[1] if os.path.isabs(ev[1]) else os.path.join(fsroot, "work", ev[1]))
                if real in {os.path.realpath(x) for x in res["existing2"]}:
                    devs.append(Dev("C15:overwrite-existing-file", "second export opened %r for writing, which existed when it started; %s" % (ev[1].replace(scratch_top, "<SCRATCH>"), cfg)))
                elif not real.startswith(out_real + os.sep):
                    devs.append(Dev("C15:write-outside-output-dir", "second export: open(%r) resolves outside the output directory; %s" % (ev[1].replace(scratch_top, "<SCRATCH>"), cfg)))
        for ph in res.get("phases", []):
            ph_real = os.path.realpath(ph["dir"])
            ex = {os.path.realpath(x) for x in ph["existing"]}
            for ev in ph["events"]:
                if ev[0] == "open" and any(c in ev[2] for c in "wax+") and not ev[1].isdigit():
                    real = os.path.realpath(ev[1] if os.path.isabs(ev[1]) else os.path.join(fsroot, "work", ev[1]))
                    if real in ex:
                        devs.append(Dev("C15:overwrite-existing-file", "a writer for %s, exporting the images of a layout computed before, opened %r for writing, which existed when it started; %s" % (os.path.relpath(ph["dir"], fsroot), ev[1].replace(scratch_top, "<SCRATCH>"), cfg)))
                    elif not real.startswith(ph_real + os.sep):
                        devs.append(Dev("C15:write-outside-output-dir", "a writer for %s opened %r for writing; %s" % (os.path.relpath(ph["dir"], fsroot), ev[1].replace(scratch_top, "<SCRATCH>"), cfg)))
                elif ev[0] in ("os.rename", "os.remove", "os.rmdir", "os.link", "os.symlink", "os.truncate", "shutil.rmtree"):
                    devs.append(Dev("C15:%s" % ev[0], "%r; %s" % ([x.replace(scratch_top, "<SCRATCH>") for x in ev], cfg)))
            ctx.probe("LTImage objects of one layout exported by two writers")
        for p in res.get("sentinels", []):
            try:
                with open(_guard(scratch_top, p), "rb") as fh:
                    if fh.read() != b"written by somebody else between two exports":
                        devs.append(Dev("C15:overwrite-existing-file", "%s, written between two exports, was overwritten by the second; %s" % (os.path.basename(p), cfg)))
            except OSError:
                devs.append(Dev("C15:preexisting-file-changed", "%s vanished; %s" % (os.path.basename(p), cfg)))
        for p, dg in before.items():
            if after.get(p) != dg:
                devs.append(Dev("C15:preexisting-file-changed", "%s changed or vanished; %s" % (os.path.relpath(p, scratch_top), cfg)))
        for p in after:
            if p not in before and not os.path.realpath(p).startswith(out_real + os.sep):
                devs.append(Dev("C15:new-file-outside-output-dir", "%s appeared; %s" % (os.path.relpath(p, scratch_top), cfg)))
        hostile = any(b"/" in nm or b".." in nm or b"\\" in nm or nm == b"existing" for _, nm in names)
        seen = {}
        for d in devs:
            seen.setdefault(d.sig, d)
        tok = os.path.basename(scratch_top)  # the random part of every path of this run

        def norm(x):
            return x.replace(tok, SCRATCH_PREFIX + "X")

        created = sorted(norm(os.path.relpath(p, scratch_top)) for p in after if p not in before)
        shown = [(sname, nm.replace(tok.encode(), b"X")) for sname, nm in shown]
        tape.note((shown, st, mode, created, res["err"] and res["err"].split(":")[0]))
        sample = {"names": [(s, repr(n)) for s, n in shown], "outdir_state": st, "mode": mode, "events": [[x.replace(scratch_top, "<SCRATCH>") for x in e[:3]] for e in res["events"][:8]], "raised": res["err"] and res["err"].replace(scratch_top, "<SCRATCH>")}
        # (the document bytes embed the random scratch path, so the scenario is identified by its normalised parts)
        scen = repr((shown, len(data) - sum(len(nm) - len(sn[1]) for (_, nm), sn in zip(names, shown)) * 0, st, mode, sorted(norm(os.path.relpath(p, scratch_top)) for p in before)))
        return Outcome(list(seen.values()), scen=scen, nontrivial=hostile, sample=sample)
    finally:
        shutil.rmtree(_guard(scratch_top, scratch_top), ignore_errors=True)


def jobs(tier, seed):
    import checks.c15 as me

    return core.std_jobs(me, tier, seed)
