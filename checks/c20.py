"""C20 - spatial index equals brute-force search after any history; affine helpers obey their algebra.

Workload/schedule : operation histories add/extend/remove/find/iter/len/contains on utils.Plane with boxes on,
                    across and outside grid lines and index bounds, negative coordinates, zero-area boxes,
                    re-insertions and double insertions - the store-versus-list machine.
Oracle            : after every operation the index agrees with a Python list model for three query boxes;
                    affine laws over exact Fractions on the same runs (pure; not what the simulation decides).
"""
import math
from fractions import Fraction

from sim import core
from sim.core import Dev, Outcome

ID = "C20"
LEVEL = "exploration"
RULE = (
    "a case = one operation history (5..60 operations drawn from add/extend/remove/re-add/double-add/find/iterate/len/"
    "contains) on one utils.Plane with tape-chosen bounds and grid size, checked after every operation against a list "
    "model with three queries (tape-chosen box, whole bounds, far outside); one history step in four first abandons a query after 0..3 "
    "answers, one in seven reads two queries alternately (schedule from the tape) and compares with each read alone; plus one evaluation of each affine law on "
    "Fraction inputs. distinct = distinct operation histories; non-trivial = the history contains at least one removal "
    "followed by a find and at least 3 live objects at some point."
)
COMPONENTS_REAL = ["pdfminer.utils.Plane", "pdfminer.utils.mult_matrix/translate_matrix/apply_matrix_pt/apply_matrix_norm/apply_matrix_rect"]
COMPONENTS_STUB = ["indexed objects: plain attribute holders (x0,y0,x1,y1)"]
ASSUMPTIONS = [
    "'properly overlap' = open-interval intersection as in Plane.find's own filter",
    "adding an object that is already present is a no-op; a re-inserted object may iterate at its first or its latest insertion position",
]
PROBES = ["churn of 20-70 short-lived objects", "object outside bounds", "object across bounds", "negative coordinates", "zero-area box", "re-add after remove", "double add", "object spans >1 cell", "query on grid line", "query abandoned before its end", "two queries read alternately"]
TIERS = {
    "quick": {"batches": 16, "runs": 2500, "budget_s": 90},
    "thorough": {"batches": 128, "runs": 20000, "budget_s": 900},
}
DETERMINISM_SLICE = 8
_ready = False


def setup():
    global _ready, U
    if _ready:
        return
    core.import_sut()
    import pdfminer.utils as U

    _ready = True


class Box:
    __slots__ = ("x0", "y0", "x1", "y1", "n")

    def __init__(self, n, b):
        self.n = n
        (self.x0, self.y0, self.x1, self.y1) = b

    def __repr__(self):
        return "#%d(%s,%s,%s,%s)" % (self.n, self.x0, self.y0, self.x1, self.y1)


def overlaps(o, q):
    return not (o.x1 <= q[0] or q[2] <= o.x0 or o.y1 <= q[1] or q[3] <= o.y0)


def cells(b, bounds, d):
    """The index's documented-by-code grid cells for a box, with bounds clipping (quirk model only)."""
    (x0, y0, x1, y1) = b
    X0, Y0, X1, Y1 = bounds
    if x1 <= X0 or X1 <= x0 or y1 <= Y0 or Y1 <= y0:
        return set()
    x0, y0, x1, y1 = max(X0, x0), max(Y0, y0), min(X1, x1), min(Y1, y1)
    return {
        (gx, gy)
        for gy in range(math.floor(y0) // d, math.floor(y1 + d) // d)
        for gx in range(math.floor(x0) // d, math.floor(x1 + d) // d)
    }


def gen_coord(t, lo, hi, d):
    k = t.draw(8, "coord.kind")
    if k == 0:
        return lo
    if k == 1:
        return hi
    if k == 2:  # on a grid line
        return (t.rint(lo // d - 1, hi // d + 1, "coord.grid")) * d
    if k == 3:  # outside
        return t.pick([lo - 1, lo - d - 3, hi + 1, hi + 2 * d + 1, lo - 0.5, hi + 0.25], "coord.out")
    if k == 4:
        return t.rint(lo, hi, "coord.int") + t.pick([0, 0.5, 0.25, -0.25], "coord.frac")
    if k == 5:  # a hair below or above a grid line
        return (t.rint(lo // d - 1, hi // d + 1, "coord.grid2")) * d + t.pick([-2.0 ** -20, 2.0 ** -20, -2.0 ** -10], "coord.eps")
    return t.rint(lo, hi, "coord.int")


def gen_box(t, bounds, d):
    lo = min(bounds[0], bounds[1])
    hi = max(bounds[2], bounds[3])
    xs = sorted([gen_coord(t, bounds[0], bounds[2], d), gen_coord(t, bounds[0], bounds[2], d)])
    ys = sorted([gen_coord(t, bounds[1], bounds[3], d), gen_coord(t, bounds[1], bounds[3], d)])
    k = t.draw(10, "box.kind")
    if k == 0:
        xs[1] = xs[0]  # zero width
    elif k == 1:
        ys[1] = ys[0]
    elif k == 2:  # small box
        xs[1] = xs[0] + t.pick([0.25, 1, 2], "box.w")
        ys[1] = ys[0] + t.pick([0.25, 1, 2], "box.h")
    elif k == 3:  # huge
        xs = [lo - 7, hi + 9]
    return (xs[0], ys[0], xs[1], ys[1])


def frac(t):
    f = Fraction(t.rint(-40, 40, "fr.n"), t.pick([1, 2, 3, 4, 7, 8], "fr.d"))
    if t.coin(6, 100, "fr.big"):
        f *= t.pick([10 ** 6, 2 ** 31, 2 ** 33 + 1, 10 ** 12, Fraction(1, 10 ** 9), 10 ** 30, Fraction(1, 10 ** 30), 2 ** 100], "fr.scale")  # far outside any page (and any fixed limit)
    return f


def affine_laws(t, devs):
    m = [tuple(frac(t) for _ in range(6)) for _ in range(3)]
    for k in range(3):
        if t.coin(25, 100, "m.special"):
            # the matrices documents really use: pure translations, scalings (also with determinant 1), quarter and half turns, flips
            lin = t.pick([(1, 0, 0, 1), (-1, 0, 0, -1), (2, 0, 0, Fraction(1, 2)), (Fraction(1, 3), 0, 0, 3), (0, 1, -1, 0), (0, -1, 1, 0), (1, 0, 0, -1), (-1, 0, 0, 1), (5, 0, 0, 5), (0, 2, Fraction(-1, 2), 0), (1, 2, 2, 1), (1, Fraction(1, 2), Fraction(1, 2), 1), (1, -3, -3, 1), (1, 1, -1, 1), (1, 0, 2, 1), (1, 2, 0, 1)], "m.special.lin")
            m[k] = tuple(Fraction(v) for v in lin) + (m[k][4], m[k][5])
    p = (frac(t), frac(t))
    I = (1, 0, 0, 1, 0, 0)
    mm, ap = U.mult_matrix, U.apply_matrix_pt
    bad = []
    if t.coin(30, 100, "floats.first"):
        # the same values as binary floats first (layout code works in floats): the exact results below may not depend
        # on what was computed before
        fm = [tuple(float(v) for v in x) for x in m]
        mm(fm[0], fm[1]), mm(mm(fm[0], fm[1]), fm[2]), ap(fm[0], (float(p[0]), float(p[1])))
        m = [tuple(Fraction(v) for v in x) for x in fm]  # exactly the values the floats stand for
        p = (Fraction(float(p[0])), Fraction(float(p[1])))
    if mm(mm(m[0], m[1]), m[2]) != mm(m[0], mm(m[1], m[2])):
        bad.append("associativity")
    if mm(m[0], I) != m[0] or mm(I, m[0]) != m[0]:
        bad.append("identity")
    if ap(mm(m[0], m[1]), p) != ap(m[1], ap(m[0], p)):
        bad.append("apply-composed")
    if U.translate_matrix(m[0], p) != mm((1, 0, 0, 1, p[0], p[1]), m[0]):
        bad.append("translate")
    a0 = ap(m[0], p)
    o0 = ap(m[0], (0, 0))
    if U.apply_matrix_norm(m[0], p) != (a0[0] - o0[0], a0[1] - o0[1]):
        bad.append("norm")
    xs = [frac(t), frac(t)]
    ys = [frac(t), frac(t)]
    if t.coin(70, 100, "rect.sorted"):
        xs, ys = sorted(xs), sorted(ys)  # otherwise the rectangle is given by its other corners: the hull is the same
    r = (xs[0], ys[0], xs[1], ys[1])
    cs = [ap(m[0], c) for c in ((r[0], r[1]), (r[2], r[1]), (r[2], r[3]), (r[0], r[3]))]
    hull = (min(c[0] for c in cs), min(c[1] for c in cs), max(c[0] for c in cs), max(c[1] for c in cs))
    if tuple(U.apply_matrix_rect(m[0], r)) != hull:
        bad.append("rect-hull")
    for b in bad:
        devs.append(Dev("C20:affine:%s" % b, "matrices=%r point=%r rect=%r" % (m, p, r)))


def run(tape, ctx, item=None):
    t = tape
    devs = []
    d = t.pick([1, 2, 5, 10, 50, 50, 64, 200], "gridsize")
    span = t.pick([3, 10, 40, 100, 400], "span") if d > 2 else t.pick([3, 10, 40], "span")
    ox, oy = t.pick([0, 0, -span // 2, -span - 5, 13, -1], "ox"), t.pick([0, 0, -span // 2, 7, -span], "oy")
    bounds = (ox, oy, ox + span, oy + t.pick([span, span // 2 + 1, span * 2], "aspect"))
    plane = U.Plane(bounds, gridsize=d)
    seq = []  # model: insertion sequence of live objects (latest insertion position)
    first = []  # model alternative: first insertion position
    everseen = []
    hist = []
    nops = t.rint(5, 60 if not t.coin(70) else 25, "nops")
    counter = 0
    had_remove = False
    nontrivial = False
    order_convention = [None]
    if ox < 0 or oy < 0:
        ctx.probe("negative coordinates")

    def new_box():
        nonlocal counter
        counter += 1
        b = Box(counter, gen_box(t, bounds, d))
        if b.x1 <= bounds[0] or bounds[2] <= b.x0 or b.y1 <= bounds[1] or bounds[3] <= b.y0:
            ctx.probe("object outside bounds")
        elif b.x0 < bounds[0] or b.x1 > bounds[2] or b.y0 < bounds[1] or b.y1 > bounds[3]:
            ctx.probe("object across bounds")
        if b.x0 == b.x1 or b.y0 == b.y1:
            ctx.probe("zero-area box")
        if len(cells((b.x0, b.y0, b.x1, b.y1), (-1e9, -1e9, 1e9, 1e9), d)) > 1:
            ctx.probe("object spans >1 cell")
        everseen.append(b)
        return b

    def model_add(b):
        if b in seq:
            return
        seq.append(b)
        if b not in first:
            first.append(b)

    for step in range(nops):
        op = t.weighted([30, 8, 18, 8, 5, 12, 6, 4, 4, 2], "op")
        try:
            if op == 0 or (op in (2, 3, 4) and not everseen):
                b = new_box()
                plane.add(b)
                model_add(b)
                hist.append("add %r" % b)
            elif op == 1:
                bs = [new_box() for _ in range(t.rint(0, 4, "ext.n"))]
                plane.extend(iter(bs))
                for b in bs:
                    model_add(b)
                hist.append("extend %r" % bs)
            elif op == 2:
                if not seq:
                    continue
                b = t.pick(seq, "rm.which")
                plane.remove(b)
                seq.remove(b)
                had_remove = True
                hist.append("remove #%d" % b.n)
            elif op == 3:  # re-add a removed object
                dead = [b for b in everseen if b not in seq]
                if not dead:
                    continue
                b = t.pick(dead, "readd.which")
                plane.add(b)
                model_add(b)
                ctx.probe("re-add after remove")
                hist.append("re-add #%d" % b.n)
            elif op == 4:  # add an object that is already present
                if not seq:
                    continue
                b = t.pick(seq, "dbl.which")
                plane.add(b)
                ctx.probe("double add")
                hist.append("add-again #%d" % b.n)
            elif op == 9:  # churn: many short-lived objects (dead entries pile up in whatever the index keeps)
                k = t.pick([20, 35, 50, 70], "churn.n")
                bs = [new_box() for _ in range(k)]
                for b in bs:
                    plane.add(b)
                    model_add(b)
                for b in bs:
                    plane.remove(b)
                    seq.remove(b)
                had_remove = True
                ctx.probe("churn of 20-70 short-lived objects")
                hist.append("churn: %d objects #%d..#%d added and removed" % (k, bs[0].n, bs[-1].n))
            elif op == 5:
                hist.append("find")
            elif op == 6:
                hist.append("iterate")
            elif op == 7:
                hist.append("len")
            else:
                hist.append("contains")
        except Exception as e:
            devs.append(Dev("C20:raise:%s" % type(e).__name__, "%r after history %s" % (e, hist)))
            break
        # ---- invariants after every operation
        live = set(seq)
        firstpos = [b for b in first if b in live]
        it = list(plane)
        if it != seq and it != firstpos:
            devs.append(Dev("C20:iteration-order", "list(plane)=%r, model (latest-insertion order)=%r; history=%s" % (it, seq, hist)))
        elif seq != firstpos:
            # a re-added object may keep its first place or take a new one - but the same way throughout a history
            conv = "latest" if it == seq else "first"
            if order_convention[0] is None:
                order_convention[0] = conv
            elif order_convention[0] != conv:
                devs.append(Dev("C20:iteration-order-inconsistent", "list(plane)=%r follows %s-insertion order, earlier in this history it followed %s-insertion order; history=%s" % (it, conv, order_convention[0], hist)))
        if len(plane) != len(seq):
            devs.append(Dev("C20:len", "len=%d model=%d; history=%s" % (len(plane), len(seq), hist)))
        probe_obj = t.pick(everseen, "contains.which") if everseen else None
        if probe_obj is not None and ((probe_obj in plane) != (probe_obj in live)):
            devs.append(Dev("C20:contains", "%r in plane = %r; history=%s" % (probe_obj, probe_obj in plane, hist)))
        q1 = gen_box(t, bounds, d)
        if any(v % d == 0 for v in q1):
            ctx.probe("query on grid line")
        queries = [q1, bounds, (bounds[2] + 3 * d, bounds[3] + 3 * d, bounds[2] + 4 * d, bounds[3] + 4 * d)]
        if live and t.coin(40, 100, "q.hug"):
            o = t.pick(seq, "q.obj")  # a query hugging a live object (touching edges, epsilon inside)
            queries.append((o.x0 - t.pick([0, 0.25, -0.25], "q.dx"), o.y0 - 0.25, o.x1 + t.pick([0, 0.25], "q.dx2"), o.y1 + 0.25))
        if t.coin(25, 100, "q.abandon"):
            # a query whose answer is not read to the end (next(), any(), a break): the queries after it owe it nothing
            g = plane.find(t.pick(queries, "q.abandon.q"))
            for _ in range(t.rint(0, 3, "q.abandon.n")):
                next(g, None)
            del g
            ctx.probe("query abandoned before its end")
        if t.coin(15, 100, "q.inter"):
            # two queries of one plane read alternately: each gives what it gives when read alone
            qa, qb = t.pick(queries, "q.inter.a"), t.pick(queries, "q.inter.b")
            ga, gb = plane.find(qa), plane.find(qb)
            ra, rb = [], []
            live_g = [(ga, ra), (gb, rb)]
            while live_g:
                g, r = live_g[t.draw(len(live_g), "q.inter.turn")]
                try:
                    r.append(next(g))
                except StopIteration:
                    live_g.remove((g, r))
            alone = (list(plane.find(qa)), list(plane.find(qb)))
            if (ra, rb) != alone:
                devs.append(Dev("C20:find-interleaved", "find(%r) and find(%r) read alternately give %r and %r, read alone %r and %r; history=%s" % (qa, qb, ra, rb, alone[0], alone[1], hist)))
            ctx.probe("two queries read alternately")
        for q in queries:
            got = list(plane.find(q))
            ideal = [o for o in seq if overlaps(o, q)]
            if len(set(got)) != len(got):
                devs.append(Dev("C20:find-duplicate", "find(%r) returned %r; history=%s" % (q, got, hist)))
            if set(got) == set(ideal):
                continue
            qc = cells(q, bounds, d)
            quirk = [o for o in ideal if cells((o.x0, o.y0, o.x1, o.y1), bounds, d) & qc]
            if set(got) == set(quirk):
                devs.append(Dev("C20:outside-bounds-not-indexed", "find(%r) = %r but brute force = %r (bounds %r, grid %d); history=%s" % (q, got, ideal, bounds, d, hist)))
            else:
                devs.append(Dev("C20:find-wrong", "find(%r) = %r but brute force = %r (bounds %r, grid %d); history=%s" % (q, got, ideal, bounds, d, hist)))
        if had_remove and len(seq) >= 3:
            nontrivial = True
        if devs and any(dv.sig != "C20:outside-bounds-not-indexed" for dv in devs):
            break
    affine_laws(t, devs)
    seen = {}
    for dv in devs:
        seen.setdefault(dv.sig, dv)
    tape.note(hist)
    sample = {"bounds": bounds, "gridsize": d, "history": hist[:12], "live_at_end": len(seq)}
    return Outcome(list(seen.values()), scen=repr((bounds, d, hist)), nontrivial=nontrivial, sample=sample)


def jobs(tier, seed):
    import checks.c20 as me

    return core.std_jobs(me, tier, seed)
