"""C03 - stream payloads and filter chains decode to exactly the original bytes (DESIGN 5/C03).

Workload : payload (random / structured / adversarial: containing endstream, endobj, EOLs, NULs, long runs,
           > 4096 LZW codes) x filter chain 0..3 x optional TIFF/PNG predictor, encoded by sim.encoders.
Schedule : chunk seam with boundaries placed on the 'stream' keyword line, inside its EOL, around 'endstream';
           Length / Filter / DecodeParms direct or indirect (nested getobj on the shared parser during the
           stream parse), referenced objects before or after the stream; read order, caching, eviction.
Oracle   : getobj(n).get_data() == payload; objects after the stream still resolve; decoders called directly agree.
"""
from io import BytesIO

from sim import core, encoders, seams
from sim.core import Dev, Outcome
from sim.oracle import match, where
from sim.pdfwriter import FileWriter, Name, Ref, Stream

ID = "C03"
LEVEL = "exploration"
RULE = (
    "a case = one payload, one filter chain (0..3 of ASCIIHex/ASCII85/LZW/Flate/RunLength under full or abbreviated "
    "names) with an optional TIFF-2 or PNG predictor stage, written as an indirect stream object (stream EOL LF/CRLF; "
    "Length, Filter, DecodeParms each direct or indirect, before or after the stream) and read through "
    "PDFDocument.getobj under 3 chunk schedules (default + 2 drawn, boundaries placed around the stream keyword / "
    "endstream), tape-chosen read order, caching flag and eviction; decoders are also called directly. "
    "distinct = distinct (file bytes, schedules); non-trivial = chain length >= 1 or an indirect Length/Filter/"
    "DecodeParms or an adversarial payload."
)
COMPONENTS_REAL = ["pdfminer.pdfparser.PDFParser.do_keyword (stream branch)", "pdfminer.pdftypes.PDFStream.get_filters/decode", "pdfminer.lzw / ascii85 / runlength / zlib", "pdfminer.utils.apply_png_predictor / apply_tiff_predictor", "pdfminer.pdfdocument.getobj"]
COMPONENTS_STUB = ["file object: io.BytesIO over SimWriter output", "BUFSIZ chunk seam", "eviction wrapper", "encoders: sim.encoders (independent)"]
ASSUMPTIONS = ["supported predictor geometry: PNG bits 8 or 1, TIFF bits 8; colours 1..4; columns 1..40", "LZW with default EarlyChange=1"]
PROBES = ["bare filter name with a one-element DecodeParms array", "run under settings.STRICT", "damaged data decoded first", "payload of tens of kilobytes", "indirect Length", "indirect Length after stream", "indirect Filter", "indirect DecodeParms", "payload contains endstream", "stream EOL crlf", "lzw beyond 9 bits", "lzw table reset", "png predictor", "png predictor colours>1", "png predictor 1-bit", "tiff predictor", "chain length 3", "abbreviated filter name", "boundary placed at stream keyword", "eviction happened"]
TIERS = {
    "quick": {"batches": 16, "runs": 1500, "budget_s": 90},
    "thorough": {"batches": 128, "runs": 3000, "budget_s": 900},
}
DETERMINISM_SLICE = 6
_ready = False
FILTERS = ["ASCIIHexDecode", "ASCII85Decode", "LZWDecode", "FlateDecode", "RunLengthDecode"]


def setup():
    global _ready, PDFDocument, PDFParser, PDFStream, direct
    if _ready:
        return
    core.import_sut()
    from pdfminer import ascii85, lzw, runlength
    from pdfminer.pdfdocument import PDFDocument
    from pdfminer.pdfparser import PDFParser
    from pdfminer.pdftypes import PDFStream

    import zlib

    direct = {
        "ASCIIHexDecode": ascii85.asciihexdecode,
        "ASCII85Decode": ascii85.ascii85decode,
        "LZWDecode": lzw.lzwdecode,
        "FlateDecode": zlib.decompress,
        "RunLengthDecode": runlength.rldecode,
    }
    seams.install_chunk_seam()
    seams.EVICT.install()
    _ready = True


def gen_payload(t, ctx):
    kind = t.weighted([3, 3, 3, 2, 2, 1], "pl.kind")
    n = t.pick([0, 1, 2, 5, 17, 64, 200, 700, 3000], "pl.len")
    adversarial = False
    if kind == 0:
        data = t.bytes(min(n, 400), "pl.rand")
    elif kind == 1:  # adversarial: contains the delimiters the parser searches for
        parts = [b"endstream", b"\nendstream\n", b"endobj", b"\r\n", b"\r", b"\n", b"\x00", b"stream\r\n", b" 0 obj", b"abc", b"xref\n", b"%%EOF"]
        data = b"".join(t.pick(parts, "pl.adv") for _ in range(1 + t.draw(12, "pl.nadv")))
        adversarial = True
        if b"endstream" in data:
            ctx.probe("payload contains endstream")
    elif kind == 2:  # long runs (RunLength / LZW friendly)
        data = b"".join(bytes((t.draw(256, "pl.rb"),)) * t.pick([1, 2, 3, 127, 128, 129, 300], "pl.rl") for _ in range(1 + t.draw(8, "pl.nruns")))
    elif kind == 3:  # text-like, compressible
        words = [b"the ", b"quick ", b"brown ", b"fox ", b"\n", b"0 0 1 rg ", b"BT ET "]
        data = b"".join(t.pick(words, "pl.w") for _ in range(n // 4 + 1))
    elif kind == 4:  # many distinct pairs: drives LZW past 511/1023/2047 table entries and a table reset
        size = t.pick([600, 1500, 3000, 9000, 14000], "pl.big")
        seed = t.draw(1 << 16, "pl.seed")
        x = seed or 1
        out = bytearray()
        for _ in range(size):
            x = (x * 1103515245 + 12345) & 0x7FFFFFFF
            out.append((x >> 16) & 0xFF)
        data = bytes(out)
    else:
        data = bytes(t.pick(b"\x00\xff\r\n ", "pl.b") for _ in range(min(n, 300)))
    if t.coin(1, 100, "pl.huge"):
        # tens of kilobytes with runs of zeros at varying alignments (ASCII85 'z' groups, long LZW / RunLength runs):
        # beyond the sizes at which a decoder may switch to working in slices
        blocks = []
        x = t.draw(1 << 16, "pl.hugeseed") or 1
        for _ in range(t.pick([40, 90, 200], "pl.hugeblocks")):
            x = (x * 1103515245 + 12345) & 0x7FFFFFFF
            blocks.append(bytes(((x >> s) & 0xFF) for s in (3, 11, 19)) * ((x >> 5) % 90 + 1))
            blocks.append(bytes(4 * ((x >> 9) % 60) + (x >> 13) % 4))
        data = data + b"".join(blocks)
        ctx.probe("payload of tens of kilobytes")
    return data, adversarial


def gen_predictor(t, ctx):
    """-> (params dict, encode function, row length) or None"""
    if not t.coin(45, 100, "pred.use"):
        return None
    colors = t.pick([1, 1, 2, 3, 4, 4, 8, 16, 17, 32], "pred.colors")  # (many components: DeviceN; with 1-bit samples a pixel still spans several bytes)
    columns = t.pick([1, 2, 3, 5, 8, 9, 16, 17, 40], "pred.columns")
    if t.coin(30, 100, "pred.tiff"):
        ctx.probe("tiff predictor")
        params = {b"Predictor": 2, b"Colors": colors, b"Columns": columns}
        if t.coin(50, 100, "pred.bpcexplicit"):
            params[b"BitsPerComponent"] = 8
        return params, (lambda d: encoders.tiff_predict(d, colors, columns, 8)), encoders.row_bytes(colors, columns, 8)
    bits = t.pick([8, 8, 8, 1], "pred.bits")
    ctx.probe("png predictor")
    if colors > 1:
        ctx.probe("png predictor colours>1")
    if bits == 1:
        ctx.probe("png predictor 1-bit")
    nf = 1 + t.draw(5, "pred.nfilters")
    row_filters = [t.draw(5, "pred.ft") for _ in range(nf)]
    params = {b"Predictor": t.pick([10, 11, 12, 13, 14, 15], "pred.value"), b"Columns": columns}
    if colors != 1 or t.coin(30, 100, "pred.colorsexplicit"):
        params[b"Colors"] = colors
    if bits != 8 or t.coin(30, 100, "pred.bpcexplicit"):
        params[b"BitsPerComponent"] = bits
    return params, (lambda d: encoders.png_predict(d, colors, columns, bits, row_filters)), encoders.row_bytes(colors, columns, bits)


def run(tape, ctx, item=None):
    # the library's strict setting is a knob of the run: well-formed input reads the same under it
    if tape.coin(8, 100, "knob.strict"):
        from pdfminer import settings as _settings

        ctx.probe("run under settings.STRICT")
        _settings.STRICT = True
        try:
            out = run_inner(tape, ctx, item)
        finally:
            _settings.STRICT = False
        for d in out.devs:
            d.msg = "under settings.STRICT: " + d.msg
        return out
    return run_inner(tape, ctx, item)


def run_inner(tape, ctx, item=None):
    t = tape
    devs = []
    payload, adversarial = gen_payload(t, ctx)
    nchain = t.weighted([2, 4, 3, 2], "chain.n")
    chain = [t.pick(FILTERS, "chain.f") for _ in range(nchain)]
    if nchain == 3:
        ctx.probe("chain length 3")
    pred = None
    pred_stage = None
    stages = [i for i, f in enumerate(chain) if f in ("LZWDecode", "FlateDecode")]
    if stages:
        pred = gen_predictor(t, ctx)
        if pred:
            # the predictor applies to the output of the *last decoded* ... i.e. of stage pred_stage; only the
            # innermost stage (last in the chain) decodes to the payload itself, so put the predictor there when
            # possible, otherwise the data handed to that stage's encoder is what must be row-aligned
            pred_stage = t.pick(stages, "pred.stage")
    # encode: decoding applies chain[0] first, so encoding goes from the last filter to the first
    data = payload
    partial_ok = False
    if pred is not None and pred_stage == len(chain) - 1:
        row = pred[2]
        if len(payload) % row and pred[0].get(b"Predictor") == 2 and len(payload) > row and t.coin(40, 100, "pred.partialrow"):
            partial_ok = True  # a TIFF-predicted payload may end in an incomplete row
            ctx.probe("tiff predictor with an incomplete last row")
        elif len(payload) % row:
            payload = payload + bytes(row - len(payload) % row)
        if not payload:
            payload = bytes(row)
        data = payload
    direct_checks = []
    for idx in range(len(chain) - 1, -1, -1):
        f = chain[idx]
        if pred is not None and idx == pred_stage:
            row = pred[2]
            if (len(data) % row and not (partial_ok and idx == len(chain) - 1)) or not data:
                # intermediate data cannot be padded without changing the inner stages: drop the predictor
                pred = None
                pred_stage = None
            else:
                data = pred[1](data)
        plain = data
        data = encoders.ENCODERS[f](data, t)
        direct_checks.append((f, data, plain))
    if chain and chain.count("LZWDecode"):
        for f, enc, plain in direct_checks:
            if f == "LZWDecode" and len(plain) > 600:
                ctx.probe("lzw beyond 9 bits")
            if f == "LZWDecode" and len(plain) > 8000:
                ctx.probe("lzw table reset")
    # a damaged sibling first: the same decoders are fed data that lost its head, its tail or its order (whatever
    # they answer or raise); what they are given afterwards must decode as if nothing had happened before
    if direct_checks and t.coin(12, 100, "damaged.first"):
        ctx.probe("damaged data decoded first")
        ctx.fault("damaged-sibling-stream")
        for f, enc, plain in direct_checks:
            for bad in (enc[1:], enc[2:], enc[: len(enc) // 2], enc[::-1], b"\x00" + enc):
                try:
                    direct[f](bad)
                except Exception:
                    pass
    # decoders called directly
    for f, enc, plain in direct_checks:
        try:
            got = direct[f](enc)
            if got != plain:
                devs.append(Dev("C03:direct:%s:wrong" % f, "decoder returned %d bytes %r.., expected %d bytes %r.." % (len(got), got[:30], len(plain), plain[:30])))
        except Exception as e:
            devs.append(Dev("C03:direct:%s:raise:%s" % (f, type(e).__name__), "%r on %r.." % (e, enc[:40])))
    # ---- the stream object
    names = []
    for f in chain:
        if t.coin(35, 100, "abbrev"):
            names.append(Name(encoders.ABBREV[f].encode()))
            ctx.probe("abbreviated filter name")
        else:
            names.append(Name(f.encode()))
    sd = {}
    extra = {}  # indirect helper objects: id -> value
    next_id = [10]

    def maybe_indirect(v, label, probe):
        if t.coin(35, 100, label):
            next_id[0] += 1
            extra[next_id[0]] = v
            ctx.probe(probe)
            return Ref(next_id[0], 0)
        return v

    if chain:
        fv = names[0] if len(names) == 1 and t.coin(60, 100, "filter.single") else list(names)
        if isinstance(fv, list) and t.coin(20, 100, "filter.elem.indirect"):
            fv = [maybe_indirect(x, "filter.elem", "indirect Filter") for x in fv]
        sd[b"Filter"] = maybe_indirect(fv, "filter.ind", "indirect Filter")
        if pred is not None:
            pv = pred[0]
            if isinstance(fv, list) or len(chain) > 1 or t.coin(30, 100, "parms.array"):
                arr = [None] * len(chain)
                arr[pred_stage] = maybe_indirect(pv, "parms.elem", "indirect DecodeParms")
                pv = arr
                if not isinstance(fv, list) and not isinstance(fv, Ref):
                    if t.coin(50, 100, "parms.barename"):
                        # a bare filter name together with a one-element parameter array: one filter, one set of parameters
                        ctx.probe("bare filter name with a one-element DecodeParms array")
                    else:
                        sd[b"Filter"] = [fv]
            sd[b"DecodeParms"] = maybe_indirect(pv, "parms.ind", "indirect DecodeParms")
    length_indirect = t.coin(40, 100, "length.ind")
    sid = 5
    if length_indirect:
        next_id[0] += 1
        lid = next_id[0]
        extra[lid] = len(data)
        sd[b"Length"] = Ref(lid, 0)
        ctx.probe("indirect Length")
    else:
        sd[b"Length"] = len(data)
    sd[b"Marker"] = 77
    stream_eol = t.pick([b"\n", b"\r\n"], "stream.eol")
    if stream_eol == b"\r\n":
        ctx.probe("stream EOL crlf")
    pre_end = t.pick([b"\n", b"\r\n", b"\r", b""], "pre_end")
    fw = FileWriter(eol=t.pick([b"\n", b"\r\n"], "eol"))
    fw.add_object(1, {b"Type": Name(b"Catalog")})
    before = [i for i in extra if t.coin(50, 100, "extra.before")]
    for i in before:
        fw.add_object(i, extra[i])
    if t.coin(40, 100, "pad"):
        fw.pad(t.pick([1, 50, 3900, 4000, 4090], "padn"))
    s_off = fw.add_object(sid, Stream(sd, data, eol=stream_eol, pre_end=pre_end))
    after = [i for i in extra if i not in before]
    if length_indirect and lid in after:
        ctx.probe("indirect Length after stream")
    sentinel = {b"Sentinel": 4242, b"S": b"after the stream"}
    fw.add_object(6, sentinel)
    for i in after:
        fw.add_object(i, extra[i])
    ent = {i: fw.offsets[i] for i in fw.offsets}
    ent[0] = (None, 65535)
    fw.xref_table(ent, {b"Size": max(ent) + 1, b"Root": Ref(1, 0)})
    fb = fw.getvalue()
    dpos = [m for m in fw.marks["stream_data"] if m[0] == sid][0][1]
    cuts = [dpos - 8, dpos - 3, dpos - 2, dpos - 1, dpos, dpos + 1, dpos + len(data) - 1, dpos + len(data), dpos + len(data) + 1, dpos + len(data) + 2, dpos + len(data) + 5, dpos + len(data) + 10]
    cuts = [c for c in cuts if 0 < c < len(fb)]
    # ---- read
    scen = []
    results = set()
    for k in range(3):
        if k == 0:
            pol, pdesc = None, "default"
        elif k == 1:
            pol, pdesc = seams.placed_chunks(sorted({t.pick(cuts, "cut") for _ in range(1 + t.draw(4, "ncuts"))}), t.pick([4096, 64, 7], "fb")), "placed"
            pdesc = "placed:%s" % pol.cuts
            ctx.probe("boundary placed at stream keyword")
        else:
            pol, pdesc = seams.draw_chunk_policy(t, cuts, allow_default=False)
        caching = not t.coin(30, 100, "caching")
        ev = seams.draw_evict(t)
        order = t.shuffle([sid, 6, sid, 6] + list(extra), "order")[: 3 + t.draw(4, "order.n")]
        if sid not in order:
            order.append(sid)
        cfg = "chain=%s pred=%s chunk=%s caching=%s evict=%s order=%s" % (chain, pred[0] if pred else None, pdesc, caching, bool(ev), order)
        ctx.seam("chunk")
        ctx.seam("evict", 1 if ev else 0)
        seams.CHUNK.policy = pol
        seams.EVICT.set(ev)
        seams.EVICT.evictions = 0
        try:
            try:
                doc = PDFDocument(PDFParser(BytesIO(fb)), caching=caching)
            except Exception as e:
                devs.append(Dev("C03:open:raise:%s@%s" % (type(e).__name__, where(e)), "%r; %s" % (e, cfg)))
                continue
            for i in order:
                try:
                    got = doc.getobj(i)
                except Exception as e:
                    devs.append(Dev("C03:getobj:raise:%s@%s" % (type(e).__name__, where(e)), "id %d: %r; %s" % (i, e, cfg)))
                    continue
                if i == sid:
                    if not isinstance(got, PDFStream):
                        devs.append(Dev("C03:not-a-stream", "%r; %s" % (got, cfg)))
                        continue
                    if got.rawdata is not None and got.rawdata != data:
                        devs.append(Dev("C03:delimitation", "raw payload: expected %d bytes %r..%r, got %d bytes %r..%r; %s" % (len(data), data[:20], data[-20:], len(got.rawdata), got.rawdata[:20], got.rawdata[-20:], cfg)))
                    try:
                        dec = got.get_data()
                    except Exception as e:
                        devs.append(Dev("C03:decode:raise:%s@%s" % (type(e).__name__, where(e)), "%r; %s" % (e, cfg)))
                        continue
                    results.add(dec)
                    if dec != payload:
                        devs.append(Dev("C03:decode:wrong", "decoded %d bytes %r.., expected %d bytes %r..; %s" % (len(dec), dec[:40], len(payload), payload[:40], cfg)))
                    if got.attrs.get("Marker") != 77:
                        devs.append(Dev("C03:dict-wrong", "%r; %s" % (got.attrs, cfg)))
                elif i == 6:
                    mism = []
                    match(sentinel, got, None, "sentinel", mism)
                    if mism:
                        devs.append(Dev("C03:object-after-stream-wrong", "%s; %s" % (mism[0][2], cfg)))
                else:
                    mism = []
                    match(extra[i], got, None, "obj%d" % i, mism)
                    if mism:
                        devs.append(Dev("C03:helper-object-wrong", "%s; %s" % (mism[0][2], cfg)))
            if seams.EVICT.evictions:
                ctx.probe("eviction happened", seams.EVICT.evictions)
        finally:
            seams.CHUNK.policy = None
            seams.EVICT.set(None)
        scen.append(cfg)
    seen = {}
    for d in devs:
        seen.setdefault(d.sig, d)
    tape.note(scen)
    tape.note(len(fb))
    nontrivial = bool(chain) or bool(extra) or adversarial
    sample = {"payload_len": len(payload), "payload_head": repr(payload[:40]), "chain": chain, "predictor": repr(pred[0]) if pred else None, "stream_dict": repr(sd), "encoded_len": len(data), "schedules": scen[:2]}
    return Outcome(list(seen.values()), scen=repr((fb, scen)), nontrivial=nontrivial, sample=sample)


def jobs(tier, seed):
    import checks.c03 as me

    return core.std_jobs(me, tier, seed)
