"""C16 - painted paths become shapes with the right points, class and graphics state (DESIGN 5/C16).

Workload : programs over m l c v y h re, S s f f* B B* b b* n, w d, g G rg RG k K cs CS sc scn SC SCN, q Q cm with
           dyadic operands, several subpaths per path, paths ended by n, CTMs incl. 90 degree rotations and shears.
Schedule : the program is an operation history against the graphics-state machine; it is cut into a /Contents array
           at tape-chosen white-space positions and read under a chunk schedule; q/Q depth up to 8, unbalanced Q.
Oracle   : reference machine over rationals (sim.gfx.Machine): one shape per painted subpath with >= 1 segment, in
           order, with class, points, original_path, flags, line width, dash pattern and both colours.
"""
from fractions import Fraction as F
from io import BytesIO

from sim import core, docs, gfx, seams
from sim.core import Dev, Outcome
from sim.gfx import Op
from sim.oracle import where
from sim.pdfwriter import Name, Ref

ID = "C16"
LEVEL = "exploration"
RULE = (
    "a case = one generated program of 1..12 paths (each 1..4 subpaths of m/l/c/v/y/h/re segments, ended by a painting "
    "operator or n) interleaved with q/Q/cm/w/d and colour operators, executed by the real interpreter unsplit and split "
    "into a tape-chosen /Contents array, each under a drawn chunk schedule; every LTLine/LTRect/LTCurve is compared with "
    "the reference machine. distinct = distinct (program text, split, schedule); non-trivial = at least 2 painted "
    "subpaths and at least one of q/Q/cm/colour change between paths."
)
COMPONENTS_REAL = ["pdfminer.pdfinterp.PDFPageInterpreter (path, paint, colour, q/Q/cm operators)", "pdfminer.converter.PDFLayoutAnalyzer.paint_path", "pdfminer.layout.LTLine/LTRect/LTCurve", "pdfminer.pdfinterp.PDFContentParser"]
COMPONENTS_STUB = ["file object: io.BytesIO over SimWriter output", "BUFSIZ chunk seam"]
ASSUMPTIONS = [
    "a colour / line width / dash pattern never set is reported as None / 0 / None (the attributes' documented defaults)",
    "a closing h after an l that already returned to the start may or may not contribute the duplicate point",
    "for a rectangle the points are its four corners (LTRect is defined by two opposite corners); the start corner and the opposite corner must be pts[0] and pts[2]",
    "h is always followed by m, re, a painting operator or n; cs/CS is always followed by the matching sc/SC before painting",
    "a quadrilateral closed by returning to the start without h may be classified rectangle or curve",
]
PROBES = ["shapes through the layout analysis", "earlier page ends inside a path", "colour space from resources", "undefined colour space name", "two documents in sequence", "polyline revisits a vertex", "painted path without moveto", "q nesting beyond 28", "sc in current colour space", "open four-segment polyline", "rect via re", "rect via mlllh", "rect reversed orientation", "quadrilateral not axis-aligned after CTM", "line ml", "line mlh", "curve with c/v/y", "several subpaths in one path", "path ended by n", "lone moveto", "q/Q nesting >= 3", "unbalanced Q", "colour space switch inside q/Q", "dash pattern", "close-and-paint operator", "split into >1 streams"]
TIERS = {
    "quick": {"batches": 16, "runs": 1200, "budget_s": 90},
    "thorough": {"batches": 128, "runs": 8000, "budget_s": 900},
}
DETERMINISM_SLICE = 4
_ready = False


def setup():
    global _ready, PDFResourceManager, PDFPageInterpreter, PDFPageAggregator, PDFPage, LTCurve, LTLine, LTRect, LTFigure
    if _ready:
        return
    core.import_sut()
    from pdfminer.converter import PDFPageAggregator
    from pdfminer.layout import LTCurve, LTFigure, LTLine, LTRect
    from pdfminer.pdfinterp import PDFPageInterpreter, PDFResourceManager
    from pdfminer.pdfpage import PDFPage

    seams.install_chunk_seam()
    _ready = True


def co(t, label="co"):
    return F(t.rint(-40, 400, label), t.pick([1, 1, 2, 4], label + ".d"))


def col(t):
    return F(t.rint(0, 8, "col.v"), 8)


CS_NAMES = ["CS0", "CS1", "Cs9"]


def gen_csres(t):
    """Resource colour spaces of one page: {name: (kind, number of components)} for a subset of CS_NAMES."""
    res = {}
    for nm in CS_NAMES:
        if t.coin(40, 100, "csres.has"):
            res[nm] = t.pick([("icc", 1), ("icc", 3), ("icc", 4), ("alias", 3), ("alias", 4), ("devicen", 2)], "csres.kind")
    return res


def gen_color(t, ctx, prog, in_q, cur, csres=None):
    """cur: {'n': non-stroking colour space, 's': stroking colour space} as the generator tracks them through q/Q."""
    ncomp = dict(gfx.NCOMP)
    ncomp.update({nm: spec[1] for nm, spec in (csres or {}).items()})
    k = t.draw(10, "col.kind")
    if csres is not None and k in (6, 7) and t.coin(45, 100, "col.named"):
        # a colour space named in the page's resources - or a name the resources do not define, which selects nothing
        stroke = k == 7
        nm = t.pick(CS_NAMES, "col.csname")
        prog.append(Op("CS" if stroke else "cs", [Name(nm.encode())]))
        if nm in csres:
            cur["s" if stroke else "n"] = nm
            ctx.probe("colour space from resources")
        else:
            ctx.probe("undefined colour space name")
        cs = cur["s" if stroke else "n"]
        opn = t.pick(["SC", "SCN"], "col.sc") if stroke else t.pick(["sc", "scn"], "col.sc")
        prog.append(Op(opn, [col(t) for _ in range(ncomp[cs])]))
        return
    if k == 0:
        prog.append(Op("g", [col(t)]))
        cur["n"] = "DeviceGray"
    elif k == 1:
        prog.append(Op("G", [col(t)]))
        cur["s"] = "DeviceGray"
    elif k == 2:
        prog.append(Op("rg", [col(t), col(t), col(t)]))
        cur["n"] = "DeviceRGB"
    elif k == 3:
        prog.append(Op("RG", [col(t), col(t), col(t)]))
        cur["s"] = "DeviceRGB"
    elif k == 4:
        prog.append(Op("k", [col(t) for _ in range(4)]))
        cur["n"] = "DeviceCMYK"
    elif k == 5:
        prog.append(Op("K", [col(t) for _ in range(4)]))
        cur["s"] = "DeviceCMYK"
    elif k in (6, 7):
        cs = t.pick(["DeviceGray", "DeviceRGB", "DeviceCMYK"], "col.cs")
        stroke = k == 7
        prog.append(Op("CS" if stroke else "cs", [Name(cs.encode())]))
        opn = t.pick(["SC", "SCN"], "col.sc") if stroke else t.pick(["sc", "scn"], "col.sc")
        prog.append(Op(opn, [col(t) for _ in range(ncomp[cs])]))
        cur["s" if stroke else "n"] = cs
        if in_q:
            ctx.probe("colour space switch inside q/Q")
    else:
        # a colour in the *current* colour space (operand count follows the space in force, also after Q)
        stroke = k == 9
        cs = cur["s" if stroke else "n"]
        opn = t.pick(["SC", "SCN"], "col.sc") if stroke else t.pick(["sc", "scn"], "col.sc")
        prog.append(Op(opn, [col(t) for _ in range(ncomp[cs])]))
        ctx.probe("sc in current colour space")


def gen_subpath(t, ctx, prog):
    k = t.weighted([4, 4, 3, 3, 3, 2, 5, 1], "sub.kind")
    x, y = co(t, "sx"), co(t, "sy")
    w, h = F(t.rint(1, 120, "sw"), t.pick([1, 2], "swd")), F(t.rint(1, 120, "sh"), t.pick([1, 2], "shd"))
    if k == 0:
        prog.append(Op("re", [x, y, w * t.pick([1, 1, -1], "re.sw"), h * t.pick([1, 1, -1], "re.sh")]))
        ctx.probe("rect via re")
    elif k == 1:
        pts = [(x, y), (x + w, y), (x + w, y + h), (x, y + h)]
        if t.coin(50, 100, "quad.rev"):
            pts = [pts[0], pts[3], pts[2], pts[1]]
            ctx.probe("rect reversed orientation")
        if t.coin(25, 100, "quad.skew"):
            pts[2] = (pts[2][0] + 3, pts[2][1])
        prog.append(Op("m", list(pts[0])))
        for p in pts[1:]:
            prog.append(Op("l", list(p)))
        end = t.draw(5, "quad.end")
        if end == 4:
            # a fourth segment that does not return to the start: four straight segments, not closed
            prog.append(Op("l", [pts[0][0] + t.pick([0, 0, 2], "open.dx"), pts[0][1] + t.pick([1, 3, 0], "open.dy") + 1]))
            ctx.probe("open four-segment polyline")
        if end == 0:
            prog.append(Op("h"))
            ctx.probe("rect via mlllh")
        elif end == 1:
            prog.append(Op("l", list(pts[0])))
        elif end == 2:
            prog.append(Op("l", list(pts[0])))
            prog.append(Op("h"))
        # end == 3: open quadrilateral (three segments)
    elif k == 2:
        prog.append(Op("m", [x, y]))
        prog.append(Op("l", [x + w, y + (h if t.coin(50) else 0)]))
        if t.coin(40, 100, "line.h"):
            prog.append(Op("h"))
            ctx.probe("line mlh")
        else:
            ctx.probe("line ml")
    elif k == 3:
        prog.append(Op("m", [x, y]))
        for _ in range(t.rint(1, 4, "curve.n")):
            kind = t.pick(["c", "v", "y", "l"], "curve.seg")
            n = {"c": 6, "v": 4, "y": 4, "l": 2}[kind]
            prog.append(Op(kind, [co(t, "cp") for _ in range(n)]))
        if t.coin(40, 100, "curve.h"):
            prog.append(Op("h"))
        ctx.probe("curve with c/v/y")
    elif k == 4:
        prog.append(Op("m", [x, y]))
        seen_pts = [(x, y)]
        for _ in range(t.rint(2, 6, "poly.n")):
            if t.coin(25, 100, "poly.revisit"):
                # a vertex that coincides with an earlier one (the start point included): still a polyline of that many segments
                q = t.pick(seen_pts, "poly.which")
                ctx.probe("polyline revisits a vertex")
            else:
                q = (co(t, "px"), co(t, "py"))
            seen_pts.append(q)
            prog.append(Op("l", list(q)))
        if t.coin(50, 100, "poly.h"):
            prog.append(Op("h"))
    elif k == 5:
        prog.append(Op("m", [x, y]))  # a lone moveto: no segment, paints nothing
        ctx.probe("lone moveto")
    elif k == 6:
        # axis-aligned rectangle given as m l l l h with points on a CTM-friendly grid
        prog.append(Op("m", [x, y]))
        prog.append(Op("l", [x, y + h]))
        prog.append(Op("l", [x + w, y + h]))
        prog.append(Op("l", [x + w, y]))
        prog.append(Op("h"))
        ctx.probe("rect via mlllh")
    else:
        prog.append(Op("m", [x, y]))
        prog.append(Op("l", [x, y]))  # zero-length segment


def gen_program(t, ctx, csres=None):
    prog = []
    depth = 0
    maxdepth = 0
    cur = {"n": "DeviceGray", "s": "DeviceGray"}
    cstack = []
    for _ in range(t.rint(1, 12, "npaths")):
        for _ in range(t.weighted([4, 3, 2, 1], "nstate")):
            k = t.weighted([3, 3, 3, 2, 2, 5], "state.kind")
            if k == 0 and depth < 8:
                prog.append(Op("q"))
                cstack.append(dict(cur))
                depth += 1
                maxdepth = max(maxdepth, depth)
            elif k == 1:
                prog.append(Op("Q"))
                if depth == 0:
                    ctx.probe("unbalanced Q")
                depth = max(0, depth - 1)
                if cstack:
                    cur.update(cstack.pop())
            elif k == 2:
                m = t.pick([(1, 0, 0, 1, 10, 20), (0, 1, -1, 0, 300, 0), (0, -1, 1, 0, 0, 300), (2, 0, 0, F(1, 2), 0, 0), (1, 0, F(1, 2), 1, 0, 0), (1, F(1, 4), 0, 1, 0, 0), (-1, 0, 0, 1, 500, 0), (1, 0, 0, 1, 0, 0), (F(1, 2048), 0, 0, F(1, 2048), 0, 0), (F(1, 1000), 0, 0, F(1, 5000), 3, 4), (1024, 0, 0, 1024, 0, 0), (1, 0, 0, 0, 0, 7), (0, 0, 0, 0, 5, 5), (2, 4, 1, 2, 0, 0)], "cm")
                prog.append(Op("cm", [F(v) for v in m]))
            elif k == 3:
                prog.append(Op("w", [F(t.rint(0, 20, "w"), 4)]))
            elif k == 4:
                arr = [F(t.rint(1, 12, "dash"), 2) for _ in range(t.draw(4, "dash.n"))]
                prog.append(Op("d", [arr, F(t.rint(0, 6, "dash.phase"))]))
                ctx.probe("dash pattern")
            else:
                gen_color(t, ctx, prog, depth > 0, cur, csres)
        if t.coin(6, 100, "invalid.path"):
            # a path that does not begin with m / re: nothing may be painted and nothing may stay behind
            for _ in range(t.rint(0, 2, "invalid.n")):
                prog.append(Op(t.pick(["l", "h"], "invalid.op"), [co(t, "ix"), co(t, "iy")] if prog and False else []))
                if prog[-1].name == "l":
                    prog[-1].args = [co(t, "ix"), co(t, "iy")]
            prog.append(Op(t.pick(["S", "s", "f", "B", "b*"], "invalid.paint")))
            ctx.probe("painted path without moveto")
            continue
        if t.coin(3, 100, "deep.q"):
            # graphics-state nesting beyond 28 levels, a different line width on every level
            depth_n = t.pick([29, 30, 40], "deep.n")
            for lv in range(depth_n):
                prog.append(Op("q"))
                cstack.append(dict(cur))
                prog.append(Op("w", [F(lv + 1, 2)]))
            for lv in range(depth_n):
                prog.append(Op("Q"))
                if cstack:
                    cur.update(cstack.pop())
                if lv >= depth_n - 3:
                    prog.append(Op("m", [F(10), F(10 + lv)]))
                    prog.append(Op("l", [F(90), F(10 + lv)]))
                    prog.append(Op("S"))
            maxdepth = max(maxdepth, depth + depth_n)
            ctx.probe("q nesting beyond 28")
            continue
        nsub = t.weighted([6, 3, 2, 1], "nsub") + 1
        if nsub > 1:
            ctx.probe("several subpaths in one path")
        for _ in range(nsub):
            gen_subpath(t, ctx, prog)
        paint = t.pick(["S", "s", "f", "f*", "B", "B*", "b", "b*", "n", "S", "f"], "paint")
        if paint == "n":
            ctx.probe("path ended by n")
        if paint in ("s", "b", "b*"):
            ctx.probe("close-and-paint operator")
        prog.append(Op(paint))
    if maxdepth >= 3:
        ctx.probe("q/Q nesting >= 3")
    return prog


def build_document(t, pieces, csres=None, prelude=None, with_font=False):
    """prelude: content of an extra first page (same resources) that the same interpreter runs before the page under test."""
    objects = {1: {b"Type": Name(b"Catalog"), b"Pages": Ref(2, 0)}, 2: {b"Type": Name(b"Pages"), b"Kids": [Ref(3, 0)], b"Count": 1}}
    resources = {}
    if with_font:
        resources[b"Font"] = {b"F1": docs.std_font(b"Helvetica")}
    if csres:
        csd = {}
        for j, (nm, (kind, n)) in enumerate(sorted(csres.items())):
            if kind == "icc":
                objects[40 + j] = docs.content_stream(bytes(16), extra={b"N": n})
                csd[nm.encode()] = [Name(b"ICCBased"), Ref(40 + j, 0)]
            elif kind == "alias":
                csd[nm.encode()] = Name({3: b"DeviceRGB", 4: b"DeviceCMYK"}[n])
            else:
                csd[nm.encode()] = [Name(b"DeviceN"), [Name(b"Ink%d" % i) for i in range(n)], Name(b"DeviceCMYK"), {b"FunctionType": 2, b"Domain": [0, 1], b"N": 1}]
        resources[b"ColorSpace"] = csd
    refs = []
    for i, p in enumerate(pieces):
        objects[10 + i] = docs.content_stream(p, flate=t.coin(25, 100, "flate"))
        refs.append(Ref(10 + i, 0))
    objects[3] = {b"Type": Name(b"Page"), b"Parent": Ref(2, 0), b"MediaBox": [0, 0, 600, 800], b"Resources": resources, b"Contents": refs[0] if len(refs) == 1 and t.coin(50) else refs}
    if prelude is not None:
        objects[5] = docs.content_stream(prelude)
        objects[4] = {b"Type": Name(b"Page"), b"Parent": Ref(2, 0), b"MediaBox": [0, 0, 600, 800], b"Resources": resources, b"Contents": Ref(5, 0)}
        objects[2] = {b"Type": Name(b"Pages"), b"Kids": [Ref(4, 0), Ref(3, 0)], b"Count": 2}
    return docs.build_pdf(objects, 1).getvalue()


def shapes_of(item, out):
    for x in item:
        if isinstance(x, LTCurve):
            out.append(x)
        elif isinstance(x, LTFigure):
            shapes_of(x, out)
    return out


def interpret(data, pol, laparams=None):
    seams.CHUNK.policy = pol
    try:
        rm = PDFResourceManager()
        dev = PDFPageAggregator(rm, laparams=laparams)
        interp = PDFPageInterpreter(rm, dev)
        pages = list(PDFPage.get_pages(BytesIO(data)))
        for page in pages:  # (one interpreter for all pages; the page under test is the last one)
            interp.process_page(page)
        return shapes_of(dev.get_result(), [])
    finally:
        seams.CHUNK.policy = None


def close(a, b):
    return abs(float(a) - float(b)) <= 1e-6 * (1 + abs(float(b)))


def pt_eq(p, q):
    return close(p[0], q[0]) and close(p[1], q[1])


def pts_eq(ps, qs):
    return len(ps) == len(qs) and all(pt_eq(p, q) for p, q in zip(ps, qs))


def color_eq(m, r):
    if m is None:
        return r is None
    if isinstance(m, tuple):
        return isinstance(r, tuple) and len(r) == len(m) and all(close(x, y) for x, y in zip(r, m))
    return isinstance(r, (int, float)) and close(r, m)


def compare(expected, shapes, cfg, devs, tag):
    # align: a lone moveto may be reported as a one-point curve or not at all
    exp = []
    rest = list(shapes)
    shapes = []
    for kind, e in expected:
        if kind == "lone-moveto":
            if rest and len(rest[0].pts) == 1 and pt_eq(rest[0].pts[0], e["pt"]) and not isinstance(rest[0], (LTLine, LTRect)):
                rest.pop(0)
            continue
        if kind != "shape":
            continue
        exp.append(e)
        if rest:
            shapes.append(rest.pop(0))
    shapes += rest
    if len(exp) != len(shapes):
        devs.append(Dev("C16:%s:shape-count" % tag, "%d shapes reported, %d painted subpaths with a segment; classes reported %s; %s" % (len(shapes), len(exp), [type(s).__name__ for s in shapes], cfg)))
        return
    for i, (e, s) in enumerate(zip(exp, shapes)):
        bad = None
        klass = "line" if isinstance(s, LTLine) else "rect" if isinstance(s, LTRect) else "curve"
        want = gfx.classify(e["kinds"], e["pts"])
        pts = e["pts"]
        alt = None
        if e["kinds"].endswith("h"):
            # closing point may or may not be reported when the path already returned to the start / is a line
            alt = pts[:-1]
            if len(e["kinds"]) > 3 and e["kinds"].endswith("lh") and pts[-2] == pts[0]:
                alt = pts[:-2] + [pts[0]]
        if klass not in want:
            bad = ("class", klass, "%s for segments %r" % (sorted(want), e["kinds"]))
        elif klass == "rect":
            corners = sorted((float(p[0]), float(p[1])) for p in pts[:4])
            got = sorted((float(p[0]), float(p[1])) for p in s.pts)
            if not pts_eq(got, corners) or not pt_eq(s.pts[0], pts[0]) or not pt_eq(s.pts[2], pts[2]):
                bad = ("pts", s.pts, [tuple(float(v) for v in p) for p in pts[:4]])
        elif not (pts_eq(s.pts, pts) or (alt is not None and pts_eq(s.pts, alt)) or (klass == "line" and pts_eq(s.pts, pts[:2]))):
            bad = ("pts", s.pts, [tuple(float(v) for v in p) for p in pts])
        if bad is None:
            op = s.original_path
            if op is None or len(op) != len(e["original_path"]) or any(a[0] != b[0] or not pts_eq(list(a[1:]), list(b[1:])) for a, b in zip(op, e["original_path"])):
                bad = ("original_path", op, [(b[0],) + tuple(tuple(float(v) for v in p) for p in b[1:]) for b in e["original_path"]])
            elif (s.stroke, s.fill, s.evenodd) != (e["stroke"], e["fill"], e["evenodd"]):
                bad = ("flags", (s.stroke, s.fill, s.evenodd), (e["stroke"], e["fill"], e["evenodd"]))
            elif (e["linewidth"] is None and s.linewidth not in (0, 1)) or (e["linewidth"] is not None and not close(s.linewidth, e["linewidth"])):
                bad = ("linewidth", s.linewidth, e["linewidth"])
            elif not color_eq(e["scolor"], s.stroking_color):
                bad = ("stroking-colour", s.stroking_color, e["scolor"])
            elif not color_eq(e["ncolor"], s.non_stroking_color):
                bad = ("non-stroking-colour", s.non_stroking_color, e["ncolor"])
            else:
                ds = s.dashing_style
                if e["dash"] is None:
                    if ds is not None:
                        bad = ("dash", ds, None)
                elif ds is None or not isinstance(ds[0], list) or len(ds[0]) != len(e["dash"][0]) or not all(close(a, b) for a, b in zip(ds[0], e["dash"][0])) or not close(ds[1], e["dash"][1]):
                    bad = ("dash", ds, e["dash"])
        if bad:
            devs.append(Dev("C16:%s:wrong-%s" % (tag, bad[0]), "shape #%d (%s, segments %s): %s = %r, reference gives %r; %s" % (i, klass, e["kinds"], bad[0], bad[1], bad[2], cfg)))
            return


class _Null:
    """A tape that always answers the first choice (used to rebuild a document without drawing)."""

    def draw(self, n, label=""):
        return 0

    def coin(self, *a, **k):
        return False

    def pick(self, seq, label=""):
        return seq[0]

    def rint(self, lo, hi, label=""):
        return lo


def core_null():
    return _Null()


def run_document(t, ctx, prog, csres, devs, scen, label):
    try:
        expected = gfx.Machine({}, {}).run(prog)
    except Exception as e:
        raise core.HarnessError("reference machine failed: %r on %r" % (e, prog))
    nshape = sum(1 for e in expected if e[0] == "shape")
    for e in expected:
        if e[0] == "shape" and e[1]["kinds"] in ("mlllh", "mllll", "mllllh") and "rect" not in gfx.classify(e[1]["kinds"], e[1]["pts"]):
            ctx.probe("quadrilateral not axis-aligned after CTM")
    data, splits = gfx.serialise(prog, t)
    for split in (False, True):
        pieces = gfx.split_stream(data, splits, t) if split else [data]
        if len(pieces) > 1:
            ctx.probe("split into >1 streams")
        prelude = None
        if t.coin(20, 100, "prelude"):
            # an earlier page of the same document, run by the same interpreter, that ends in the middle of a path, inside
            # q, with colours, width and dash set: a page starts from the initial state whatever came before it
            prelude = t.pick([b"3 w [2 1] 0 d 1 0 0 RG 0 1 0 rg q 2 0 0 2 5 5 cm 10 10 m 50 50 l 70 10 l", b"q q 0.5 g 7 w 100 100 50 50 re", b"10 10 m 20 20 l h 30 30 m", b"/CS0 cs 1 1 1 scn 5 5 m 6 6 l 9 9 l W"], "prelude.content")
            ctx.probe("earlier page ends inside a path")
        pdf = build_document(t, pieces, csres, prelude)
        pol, pdesc = seams.draw_chunk_policy(t, None)
        ctx.seam("chunk")
        cfg = "%spieces=%r; chunk=%s; colour-space resources=%r" % (label, pieces, pdesc, csres)
        try:
            shapes = interpret(pdf, pol)
        except Exception as e:
            devs.append(Dev("C16:raise:%s@%s" % (type(e).__name__, where(e)), "%r; %s" % (e, cfg)))
            continue
        compare(expected, shapes, cfg, devs, "split" if split else "program")
        if not split and shapes and t.coin(25, 100, "with.layout"):
            # the same page with a line of text on it, handed to the layout analysis: the shapes are not text - they come
            # out as they went in, all of them, in their order
            from pdfminer.layout import LAParams

            ctx.probe("shapes through the layout analysis")
            pdf2 = build_document(core_null(), pieces + [b" q BT /F1 10 Tf 1 0 0 1 300 400 Tm (text) Tj ET Q"], csres, None, with_font=True)
            try:
                plain = interpret(pdf2, None)
                laid = interpret(pdf2, None, LAParams())
            except Exception as e:
                devs.append(Dev("C16:layout:raise:%s@%s" % (type(e).__name__, where(e)), "%r; %s" % (e, cfg)))
            else:
                key = lambda x: (type(x).__name__, tuple(x.pts), tuple(x.bbox), x.linewidth, x.stroke, x.fill, x.evenodd, repr(x.stroking_color), repr(x.non_stroking_color))  # noqa: E731
                a, b = [key(x) for x in plain], [key(x) for x in laid]
                if a != b:
                    k = next((i for i, (x, y) in enumerate(zip(a, b)) if x != y), min(len(a), len(b)))
                    devs.append(Dev("C16:layout:shapes-differ", "%d shapes without layout analysis, %d with it; first difference at #%d: %r / %r; %s" % (len(a), len(b), k, a[k] if k < len(a) else None, b[k] if k < len(b) else None, cfg)))
        scen.append((pieces, pdesc))
    return nshape


def run(tape, ctx, item=None):
    t = tape
    devs = []
    scen = []
    # one or two documents interpreted one after the other in this process: what the first one's resources define
    # (colour spaces under the same names, with other component counts) must not reach the second
    ndocs = 2 if t.coin(30, 100, "ndocs") else 1
    if ndocs == 2:
        ctx.probe("two documents in sequence")
    nshape, prog = 0, []
    for di in range(ndocs):
        csres = gen_csres(t) if t.coin(60, 100, "csres") else None
        prog = gen_program(t, ctx, csres)
        nshape = run_document(t, ctx, prog, csres, devs, scen, "" if ndocs == 1 else "document %d of 2 (resources %r); " % (di + 1, csres))
    seen = {}
    for d in devs:
        seen.setdefault(d.sig, d)
    tape.note(scen)
    names = [op.name for op in prog]
    rich = any(n in ("q", "Q", "cm", "g", "G", "rg", "RG", "k", "K", "cs", "CS") for n in names)
    sample = {"program": " ".join(repr(op).strip() for op in prog)[:600], "painted_subpaths": nshape}
    return Outcome(list(seen.values()), scen=repr(scen), nontrivial=nshape >= 2 and rich, sample=sample)


def jobs(tier, seed):
    import checks.c16 as me

    return core.std_jobs(me, tier, seed)
