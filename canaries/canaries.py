"""Canary edits for the sensitivity self-test: each breaks one property while the pinned suite stays green."""
PS = "pdfminer/psparser.py"
CANARIES = [
    # ---- C14 / C01: lexer
    {"name": "lex-hexname-needs-lookahead", "property": "C14", "file": PS,
     "old": "        if HEX.match(c) and len(self.hex) < 2:", "new": "        if HEX.match(c) and len(self.hex) < 2 and i + 1 < len(s):"},
    {"name": "lex-crlf-continuation-in-buffer-only", "property": "C14", "file": PS,
     "old": "            self._parse1 = self._parse_string_2\n            return i + 1\n\n        elif c != b\"\\n\":",
     "new": "            if s[i + 1 : i + 2] == b\"\\n\":\n                i += 1\n            self._parse1 = self._parse_string\n            return i + 1\n\n        elif c != b\"\\n\":"},
    {"name": "lex-octal-assert-back", "property": "C14", "file": PS,
     "old": "            chrcode = int(self.oct, 8) & 0xFF", "new": "            chrcode = int(self.oct, 8)"},
    {"name": "lex-nul-no-progress", "property": "C14", "file": PS,
     "old": "        elif c == b\"\\x00\":\n            return j + 1", "new": "        elif c == b\"\\x00\":\n            return j"},
    {"name": "c01-hexname-three-digits", "property": "C01", "file": PS,
     "old": "        if HEX.match(c) and len(self.hex) < 2:", "new": "        if HEX.match(c) and len(self.hex) <= 2:"},
    {"name": "c01-crlf-continuation-in-buffer-only", "property": "C01", "file": PS,
     "old": "            self._parse1 = self._parse_string_2\n            return i + 1\n\n        elif c != b\"\\n\":",
     "new": "            if s[i + 1 : i + 2] == b\"\\n\":\n                i += 1\n            self._parse1 = self._parse_string\n            return i + 1\n\n        elif c != b\"\\n\":"},
    {"name": "c01-nul-not-delimiter", "property": "C01", "file": PS,
     "old": 'END_LITERAL = re.compile(rb"[#/%\\[\\]()<>{}\\s\\x00]")', "new": 'END_LITERAL = re.compile(rb"[#/%\\[\\]()<>{}\\s]")'},
    {"name": "c01-negative-real-sign-lost-across-refill", "property": "C01", "file": PS,
     "old": "        if c == b\".\":\n            self._curtoken += c\n            self._parse1 = self._parse_float\n            return j + 1",
     "new": "        if c == b\".\":\n            self._curtoken = (self._curtoken if i != 0 or j != 0 else self._curtoken.lstrip(b\"-\")) + c\n            self._parse1 = self._parse_float\n            return j + 1"},
]
